"""
C36 translator (fail-closed): extracts the ORDER OF STEPS inside the composite service entry
points from the AST of ioflo/aio/proto/stacking.py and renders it as Gallina
(coq/gen/C36Order.v).  Anything but a straight sequence of the known `self.x()` /
`self.handler.x()` call statements (each step at most once) raises Unsupported.
"""
import ast


class Unsupported(Exception):
    pass


SERVER_ALL = {"self.serviceConnects": "StConnects", "self.handler.serviceReceivesAllIx": "StRecv",
              "self.serviceAllRx": "StRx", "self.serviceAllTx": "StTx",
              "self.handler.serviceTxesAllIx": "StSend"}
# methods whose bodies the hand model treats as one atomic step: their own step order is pinned
PINNED = {
    ("Stack", "serviceAllRx"): ["self.serviceReceives", "self.serviceRxPkts", "self.serviceRxMsgs",
                                "self.serviceTimers"],
    ("Stack", "serviceAllTx"): ["self.serviceTxMsgs", "self.serviceTxPkts"],
}


CANONICAL = ("(* canonical order written because the translator REJECTED the source of this run *)\n"
             "From Coq Require Import List.\nImport ListNotations.\nRequire Import V.C36.Model.\n"
             "Definition server_all_order : list sstep := [StConnects; StRecv; StRx; StTx; StSend].\n")


def dotted(node):
    if isinstance(node, ast.Name):
        return node.id
    if isinstance(node, ast.Attribute):
        return dotted(node.value) + "." + node.attr
    raise Unsupported("callee %s" % ast.dump(node))


def call_sequence(fn):
    """body must be [docstring] + plain argument-less call statements"""
    seq = []
    body = fn.body
    if body and isinstance(body[0], ast.Expr) and isinstance(getattr(body[0], "value", None), ast.Constant) \
            and isinstance(body[0].value.value, str):
        body = body[1:]
    for st in body:
        if not (isinstance(st, ast.Expr) and isinstance(st.value, ast.Call)):
            raise Unsupported("%s: statement %s is not a plain call" % (fn.name, type(st).__name__))
        if st.value.args or st.value.keywords:
            raise Unsupported("%s: call with arguments" % fn.name)
        seq.append(dotted(st.value.func))
    return seq


def method(tree, cls, name):
    for node in tree.body:
        if isinstance(node, ast.ClassDef) and node.name == cls:
            for f in node.body:
                if isinstance(f, ast.FunctionDef) and f.name == name:
                    return f
    raise Unsupported("%s.%s not found" % (cls, name))


def inherits_unchanged(tree, cls, names):
    """cls must not override any of `names` (it uses the pinned base versions)"""
    for node in tree.body:
        if isinstance(node, ast.ClassDef) and node.name == cls:
            over = [f.name for f in node.body if isinstance(f, ast.FunctionDef) and f.name in names]
            if over:
                raise Unsupported("%s overrides %s" % (cls, over))
            return
    raise Unsupported("class %s not found" % cls)


def pin_connects_loop(tree):
    """TcpServerStack.serviceConnects must be: handler.serviceConnects(); for ca, ix in
    handler.ixes.items(): [if ix.cutoff: closeConnection(ca); continue] [if ca not in haRemotes:
    create + addRemote] [if timeout...: closeConnection] -- the model's p_connects"""
    fn = method(tree, "TcpServerStack", "serviceConnects")
    body = [st for st in fn.body if not (isinstance(st, ast.Expr) and isinstance(st.value, ast.Constant))]
    if len(body) != 2 or not isinstance(body[1], ast.For):
        raise Unsupported("serviceConnects: expected one call and one for loop")
    if not (isinstance(body[0], ast.Expr) and isinstance(body[0].value, ast.Call)
            and dotted(body[0].value.func) == "self.handler.serviceConnects"):
        raise Unsupported("serviceConnects: first statement is not self.handler.serviceConnects()")
    loop = body[1]
    if ast.unparse(loop.iter) != "self.handler.ixes.items()" or loop.orelse:
        raise Unsupported("serviceConnects: loop is not over self.handler.ixes.items()")
    if len(loop.body) != 3 or not all(isinstance(st, ast.If) and not st.orelse for st in loop.body):
        raise Unsupported("serviceConnects: loop body is not three plain ifs")
    cut, rem, tmo = loop.body
    if ast.unparse(cut.test) != "ix.cutoff" or len(cut.body) != 2 or \
            ast.unparse(cut.body[0]) != "self.closeConnection(ca)" or not isinstance(cut.body[1], ast.Continue):
        raise Unsupported("serviceConnects: cut-off branch is not 'closeConnection(ca); continue'")
    if ast.unparse(rem.test) != "ca not in self.haRemotes" or len(rem.body) != 2 or \
            ast.unparse(rem.body[1]) != "self.addRemote(remote)":
        raise Unsupported("serviceConnects: remote creation branch changed")
    if [ast.unparse(st) for st in tmo.body] != ["self.closeConnection(ca)"]:
        raise Unsupported("serviceConnects: timeout branch changed")


def translate(source):
    tree = ast.parse(source)
    pin_connects_loop(tree)
    seq = call_sequence(method(tree, "TcpServerStack", "serviceAll"))
    steps = []
    for c in seq:
        if c not in SERVER_ALL:
            raise Unsupported("TcpServerStack.serviceAll: unknown step %s" % c)
        if SERVER_ALL[c] in steps:
            raise Unsupported("TcpServerStack.serviceAll: step %s twice" % c)
        steps.append(SERVER_ALL[c])
    for (cls, name), want in PINNED.items():
        got = call_sequence(method(tree, cls, name))
        if got != want:
            raise Unsupported("%s.%s is %r, the model pins %r" % (cls, name, got, want))
    inherits_unchanged(tree, "TcpServerStack", ["serviceAllRx", "serviceAllTx", "serviceRxPkts"])
    inherits_unchanged(tree, "RemoteStack", ["serviceAllRx", "serviceAllTx", "serviceRxPkts"])
    text = ("(* GENERATED by props/C36/translate.py from ioflo/aio/proto/stacking.py -- do not edit *)\n"
            "From Coq Require Import List.\nImport ListNotations.\nRequire Import V.C36.Model.\n"
            "Definition server_all_order : list sstep := [%s].\n" % "; ".join(steps))
    return text, steps


def selftest():
    bad = []
    ok = ("class Stack:\n def serviceAllRx(self):\n  self.serviceReceives()\n  self.serviceRxPkts()\n  self.serviceRxMsgs()\n  self.serviceTimers()\n"
          " def serviceAllTx(self):\n  self.serviceTxMsgs()\n  self.serviceTxPkts()\nclass RemoteStack(Stack):\n pass\n"
          "class TcpServerStack(RemoteStack):\n def serviceConnects(self):\n  self.handler.serviceConnects()\n"
          "  for ca, ix in self.handler.ixes.items():\n   if ix.cutoff:\n    self.closeConnection(ca)\n    continue\n"
          "   if ca not in self.haRemotes:\n    remote = devicing.IpRemoteDevice(stack=self, ha=ca)\n    self.addRemote(remote)\n"
          "   if ix.timeout > 0.0 and ix.timer.expired:\n    self.closeConnection(ca)\n"
          " def serviceAll(self):\n  '''doc'''\n%s")
    good = "  self.serviceConnects()\n  self.handler.serviceReceivesAllIx()\n  self.serviceAllRx()\n"
    try:
        if translate(ok % good)[1] != ["StConnects", "StRecv", "StRx"]:
            bad.append("accepted snippet rendered wrongly")
    except Unsupported as ex:
        bad.append("good snippet rejected: %s" % ex)
    for frag in ["  if self.x:\n   self.serviceConnects()\n", "  self.serviceConnects(1)\n", "  self.other()\n",
                 "  self.serviceAllRx()\n  self.serviceAllRx()\n", "  x = self.serviceAllRx()\n"]:
        try:
            translate(ok % frag)
            bad.append("accepted %r" % frag)
        except Unsupported:
            pass
    try:
        translate((ok % good).replace("    continue\n", "    break\n"))
        bad.append("accepted a serviceConnects loop that breaks after closing")
    except Unsupported:
        pass
    return bad
