"""
C36 harness: runs the REAL TcpClientStack / TcpServerStack (with the real Client, Server and
Incomer underneath) over socket doubles injected in this process (module global `socket` of
ioflo.aio.tcp.clienting / serving replaced by a namespace whose socket() returns fakes).

Oracles: send results  ('A', n) -> the socket takes min(n, len) bytes (n == 0: raises EAGAIN)
                       ('C',)   -> raises ECONNRESET-class error
         recv results  ('D', bytes) | ('N',) EAGAIN | ('X',) peer closed (b'')
An exhausted send oracle accepts everything, an exhausted recv oracle raises EAGAIN.
"""
import errno
import socket as real_socket

RESETS = [errno.ECONNRESET, errno.ETIMEDOUT, errno.EHOSTUNREACH, errno.ENETDOWN, errno.ECONNREFUSED]


class World(object):
    def __init__(self):
        self.send_orc = []     # shared, consumed in call order
        self.pending = []      # (FakeConn, ca) waiting in the listen queue
        self.nreset = 0


class FakeBase(object):
    def __init__(self, world):
        self.w = world

    def setsockopt(self, *a):
        pass

    def getsockopt(self, *a):
        return 1 << 22

    def setblocking(self, flag):
        pass

    def shutdown(self, how):
        pass

    def close(self):
        pass


class FakeConn(FakeBase):
    """a connected stream socket (client side or accepted side)"""
    def __init__(self, world, local, peer):
        FakeBase.__init__(self, world)
        self.local, self.peer = local, peer
        self.wire = bytearray()
        self.recv_orc = []

    def connect_ex(self, ha):
        return 0

    def getsockname(self):
        return self.local

    def getpeername(self):
        return self.peer

    def send(self, data):
        if not self.w.send_orc:
            n = len(data)
        else:
            r = self.w.send_orc.pop(0)
            if r[0] == 'C':
                self.w.nreset += 1
                raise real_socket.error(RESETS[self.w.nreset % len(RESETS)], "reset")
            if r[1] == 0:
                raise real_socket.error(errno.EAGAIN, "would block")
            n = min(r[1], len(data))
        self.wire.extend(bytes(data[:n]))
        return n

    def recv(self, n):
        if not self.recv_orc:
            raise real_socket.error(errno.EAGAIN, "would block")
        r = self.recv_orc.pop(0)
        if r[0] == 'D':
            self.got = getattr(self, "got", b"") + bytes(r[1])
            return bytes(r[1])
        if r[0] == 'X':
            return b''
        raise real_socket.error(errno.EWOULDBLOCK, "would block")


class FakeListen(FakeBase):
    def bind(self, ha):
        self.ha = ha

    def listen(self, n):
        pass

    def getsockname(self):
        return ('127.0.0.1', 9000)

    def accept(self):
        if self.w.pending:
            return self.w.pending.pop(0)
        raise real_socket.error(errno.EAGAIN, "would block")


class FakeSocketModule(object):
    def __init__(self, world, kind):
        self._w, self._kind = world, kind

    def socket(self, *a, **k):
        if self._kind == "client":
            return FakeConn(self._w, ('127.0.0.1', 40001), ('127.0.0.1', 9000))
        return FakeListen(self._w)

    def __getattr__(self, name):
        return getattr(real_socket, name)


def exc_name(ex):
    return "EXC:" + type(ex).__name__


# ------------------------------------------------------------------------------------------
def run_client(ops):
    """ops: ('enq', bytes) | ('svc', [send results]) | ('rx', [recv results])
    returns list of observations, one per op:
      tx ops:  ('t', [txPkts packed...], txbs, wire, cutoff)
      rx ops:  ('r', [rxPkts packed... cumulative], rxbs, cutoff, unconsumed recv results)
    or ('EXC:Name',) and stops"""
    from ioflo.aio.tcp import clienting
    from ioflo.aio.proto import stacking, packeting
    from ioflo.base import storing
    w = World()
    saved = clienting.socket
    clienting.socket = FakeSocketModule(w, "client")
    out = []
    try:
        store = storing.Store(stamp=0.0)
        client = clienting.Client(ha=('127.0.0.1', 9000), store=store)
        stack = stacking.TcpClientStack(handler=client, stamper=store, ha=('127.0.0.1', 9000))
        stack.serviceConnect()
        assert client.connected
        sock = client.cs
        for op in ops:
            try:
                if op[0] == 'enq':
                    stack.transmit(packeting.Packet(stack=stack, packed=op[1]))
                elif op[0] == 'svc':
                    w.send_orc = list(op[1])
                    stack.serviceTxPkts()
                    w.send_orc = []
                else:
                    sock.recv_orc = list(op[1])
                    stack.serviceReceives()
                if op[0] == 'rx':
                    out.append(('r', [bytes(p.packed) for p in stack.rxPkts], bytes(stack.rxbs),
                                bool(client.cutoff), len(sock.recv_orc)))
                    sock.recv_orc = []
                else:
                    out.append(('t', [bytes(p.packed) for p in stack.txPkts], bytes(stack.txbs),
                                bytes(sock.wire), bool(client.cutoff)))
            except Exception as ex:   # internal error of the implementation = an observation
                out.append((exc_name(ex),))
                break
        return out
    finally:
        clienting.socket = saved


def run_server(cas, ops, via_service_all=False):
    """cas: list of int ports of connected peers;
    ops: ('enq', bytes, ca) | ('stk',) serviceTxPkts | ('cns', [send results]) serviceTxesAllIx
         | ('rxc', {ca: [recv results]}) handler.serviceReceivesAllIx | ('rxs',) stack.serviceReceives
         | ('drop', ca) the peer closes: recv b'' -> cutoff, then stack.closeConnection(ca) (serviceConnects' action)
    observations: tx ops ('t', [(packed, ca)...], [(ca, [txes...], wire, cutoff)...], err)
                  rx ops ('r', [(packed, ca)... cumulative], [(ca, rxbs, cutoff)...])"""
    from ioflo.aio.tcp import serving
    from ioflo.aio.proto import stacking, packeting
    w = World()
    saved = serving.socket
    serving.socket = FakeSocketModule(w, "server")
    out = []
    try:
        srv = stacking.TcpServerStack(ha=('127.0.0.1', 9000))
        socks = {}
        for ca in cas:
            s = FakeConn(w, ('127.0.0.1', 9000), ('127.0.0.1', ca))
            socks[ca] = s
            w.pending.append((s, ('127.0.0.1', ca)))
        try:
            srv.serviceConnects()      # Server.serviceConnects + remotes for the new peers
        except Exception as ex:
            return [(exc_name(ex),)]

        def key(ca):
            return ca[1]

        for op in ops:
            err = 0
            try:
                if op[0] == 'enq':
                    srv.transmit(packeting.Packet(stack=srv, packed=op[1]), ('127.0.0.1', op[2]))
                elif op[0] == 'stk':
                    try:
                        srv.serviceTxPkts()
                    except ValueError:
                        err = 1
                elif op[0] == 'cns':
                    w.send_orc = list(op[1])
                    srv.handler.serviceTxesAllIx()
                    w.send_orc = []
                elif op[0] == 'drop':
                    if op[1] in socks and ('127.0.0.1', op[1]) in srv.handler.ixes:
                        socks[op[1]].recv_orc = [('X',)]
                        srv.handler.serviceReceivesAllIx()
                        socks[op[1]].recv_orc = []
                        srv.closeConnection(('127.0.0.1', op[1]))   # what serviceConnects does for it
                elif op[0] == 'rxc':
                    for ca, orc in op[1].items():
                        socks[ca].recv_orc = list(orc)
                    srv.handler.serviceReceivesAllIx()
                    for ca in op[1]:
                        socks[ca].recv_orc = []
                else:
                    srv.serviceReceives()
                if op[0] in ('rxc', 'rxs'):
                    out.append(('r', [(bytes(p.packed), key(ca)) for p, ca in srv.rxPkts],
                                [(key(ca), bytes(ix.rxbs), bool(ix.cutoff)) for ca, ix in srv.handler.ixes.items()]))
                else:
                    out.append(('t', [(bytes(p.packed), key(ca)) for p, ca in srv.txPkts],
                                [(key(ca), [bytes(d) for d in ix.txes], bytes(socks[key(ca)].wire), bool(ix.cutoff))
                                 for ca, ix in srv.handler.ixes.items()], err))
            except Exception as ex:
                out.append((exc_name(ex),))
                break
        return out
    finally:
        serving.socket = saved


# ------------------------------------------------------------------------------------------
# composite entry points: the stacks are serviced ONLY through serviceAll()

def run_server_all(cas, passes):
    """cas: ports of the peers in the order in which they will connect;
    passes: list of (arrivals, {ca: [recv results]}) -- the peers in `arrivals` connect (and may
    already have sent: their recv results of this pass), then ONE serviceAll().
    returns (obs, got): obs per pass = [(ca, in_table, rxbs, cutoff, [packets delivered to ca's remote])
    per ca in cas order] or ('EXC:Name',); got = {ca: bytes the socket double handed out}"""
    from ioflo.aio.tcp import serving
    from ioflo.aio.proto import stacking
    w = World()
    saved = serving.socket
    serving.socket = FakeSocketModule(w, "server")
    out = []
    try:
        delivered = {ca: [] for ca in cas}

        class Recording(stacking.TcpServerStack):
            def _serviceOneRxPkt(self):
                pkt, ha = self.rxPkts[0]
                if ha in self.haRemotes:      # messagize hands it to that remote, else drops it
                    delivered[ha[1]].append(bytes(pkt.packed))
                super(Recording, self)._serviceOneRxPkt()

        srv = Recording(ha=('127.0.0.1', 9000))
        socks = {ca: FakeConn(w, ('127.0.0.1', 9000), ('127.0.0.1', ca)) for ca in cas}
        connected = set()
        try:
            for arrivals, orcs in passes:
                for ca in arrivals:
                    if ca not in connected:
                        connected.add(ca)
                        w.pending.append((socks[ca], ('127.0.0.1', ca)))
                for ca, orc in orcs.items():
                    socks[ca].recv_orc = list(orc)
                srv.serviceAll()
                for ca in cas:
                    socks[ca].recv_orc = []
                row = []
                for ca in cas:
                    ix = srv.handler.ixes.get(('127.0.0.1', ca))
                    row.append((ca, ix is not None, bytes(ix.rxbs) if ix is not None else b"",
                                bool(ix.cutoff) if ix is not None else True, list(delivered[ca])))
                out.append(row)
        except Exception as ex:
            out.append((exc_name(ex),))
        return out, {ca: getattr(socks[ca], "got", b"") for ca in cas}
    finally:
        serving.socket = saved


def run_client_all(passes, entry="serviceAll"):
    """passes: list of [recv results]; one TcpClientStack.serviceAll() (or serviceAllRx()) per element.
    obs per pass = ([delivered packets... cumulative], rxbs, cutoff, unconsumed)"""
    from ioflo.aio.tcp import clienting
    from ioflo.aio.proto import stacking
    from ioflo.base import storing
    w = World()
    saved = clienting.socket
    clienting.socket = FakeSocketModule(w, "client")
    out = []
    try:
        delivered = []

        class Recording(stacking.TcpClientStack):
            def _serviceOneRxPkt(self):
                delivered.append(bytes(self.rxPkts[0].packed))
                super(Recording, self)._serviceOneRxPkt()

        store = storing.Store(stamp=0.0)
        client = clienting.Client(ha=('127.0.0.1', 9000), store=store)
        stack = Recording(handler=client, stamper=store, ha=('127.0.0.1', 9000))
        try:
            stack.serviceAll()
            assert client.connected
            sock = client.cs
            for orc in passes:
                sock.recv_orc = list(orc)
                if entry == "serviceAll":
                    stack.serviceAll()
                elif not client.cutoff:          # serviceAll's own guard in front of serviceAllRx
                    stack.serviceAllRx()
                out.append((list(delivered), bytes(stack.rxbs), bool(client.cutoff), len(sock.recv_orc)))
                sock.recv_orc = []
        except Exception as ex:
            out.append((exc_name(ex),))
        return out, getattr(client.cs, "got", b"") if client.cs is not None else b""
    finally:
        clienting.socket = saved
