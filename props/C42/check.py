"""
C42 -- Timer / MonoTimer / StoreTimer report elapsed, remaining, expiry consistently
       with their clock; MonoTimer compensates (retro) or raises on backward jumps.

Tie H: coq/C42/Model.v (+ coq/Lib/C42_StoreTimer.v) is a hand model, time = Q.
  theorems       : coq/C42/Props.v (all op sequences, all clock traces)
  correspondence : the same histories (op list + clock oracle = list of readings, one per
                   time.time() call) are run on the real classes with the `time` name inside
                   ioflo.aid.timing replaced by a double IN THIS PROCESS ONLY.  All values are
                   dyadic (multiples of 1/8, magnitude < 2**24) so binary64 arithmetic is exact
                   and is compared with Q arithmetic inside Coq (Qeq_bool).
"""
import itertools
from fractions import Fraction

from vlib import clist, cq, cbool, copt

LEVEL = "proof"


# --------------------------------------------------------------------------- doubles
class FakeTime(object):
    """stands for the `time` module inside ioflo.aid.timing"""
    def __init__(self, readings):
        self.readings = list(readings)
        self.now = 0.0
        self.calls = 0

    def time(self):
        self.calls += 1
        if self.readings:
            self.now = self.readings.pop(0)
        return self.now


class FakeStore(object):
    def __init__(self, stamp):
        self.stamp = stamp


def F(x):
    return None if x is None else Fraction(x)


def canon(v):
    """implementation result -> canonical tuple"""
    if isinstance(v, bool):
        return ("B", v)
    if isinstance(v, (int, float)):
        return ("Q", Fraction(v))
    if isinstance(v, tuple) and len(v) == 2 and all(isinstance(x, (int, float)) for x in v):
        return ("SS", Fraction(v[0]), Fraction(v[1]))
    return ("?", repr(v))


def apply_op(t, op):
    k = op[0]
    if k == "elapsed":
        return t.elapsed
    if k == "remaining":
        return t.remaining
    if k == "expired":
        return t.expired
    if k == "restart":
        return t.restart(start=op[1], duration=op[2])
    if k == "repeat":
        return t.repeat()
    if k == "extend":
        return t.extend(op[1]) if op[1] is not None else t.extend()
    raise RuntimeError(op)


def attrs(t):
    return (F(getattr(t, "start", None)), F(getattr(t, "stop", None)), F(getattr(t, "latest", None)))


def run_impl(kind, dur, readings, ops, stamp0=None):
    """returns (outs, obs): outs = canonical outputs (incl. constructor and 'left'),
    obs[i] = (start, stop, latest, reading_used_or_stamp) after item i (None for ctor failure)"""
    from ioflo.aid import timing
    from ioflo.base import excepting
    saved = timing.time
    ft = FakeTime(readings)
    timing.time = ft
    outs, obs = [], []
    try:
        def guarded(f):
            try:
                return canon(f())
            except excepting.TimerRetroError:
                return ("E", "TimerRetroError")
            except TypeError:
                return ("E", "TypeError")
            except Exception as ex:  # anything else is reported verbatim (never matches the model)
                return ("?", "%s: %s" % (type(ex).__name__, ex))
        store = FakeStore(stamp0)
        box = {}

        def ctor():
            if kind == "timer":
                box["t"] = timing.Timer(duration=dur)
            elif kind == "store":
                box["t"] = timing.StoreTimer(store, duration=dur)
            else:
                box["t"] = timing.MonoTimer(duration=dur, retro=(kind == "mono_retro"))
            return (box["t"].start, box["t"].stop)
        r = guarded(ctor)
        outs.append(r)
        if "t" not in box:
            return outs, obs
        t = box["t"]
        obs.append(attrs(t) + (ft.now, F(getattr(t, 'duration', None))))
        for op in ops:
            if op[0] == "stamp":
                store.stamp = op[1]
                obs.append(attrs(t) + (F(op[1]), F(getattr(t, 'duration', None))))
                continue
            outs.append(guarded(lambda: apply_op(t, op)))
            obs.append(attrs(t) + (F(ft.now) if kind != "store" else F(store.stamp), F(getattr(t, 'duration', None))))
        if kind != "store":
            outs.append(("L", len(ft.readings)))
        return outs, obs
    finally:
        timing.time = saved


# --------------------------------------------------------------------------- property statement
def ref_duration(rdur, op):
    """the timer's duration after op, per the statement: restart(duration=d) -> |d|, extend(e) ->
    |duration + e| (e missing: doubles), everything else keeps it"""
    if op[0] == "restart" and op[2] is not None:
        return abs(Fraction(op[2]))
    if op[0] == "extend":
        return abs(rdur + (rdur if op[1] is None else Fraction(op[1])))
    return rdur


CHECK_ATTR = [True]   # search() switches the .duration attribute test off to find a behavioural consequence


def duration_check(i, op, st, rdur):
    """after every op: stop = start + duration and the .duration attribute is that duration"""
    if st[0] is None or st[1] is None:
        return None
    if st[1] - st[0] != rdur:
        return ("stop-vs-duration: after op %d %r: start %s stop %s (.duration %s), but the timer's duration is %s "
                "and stop must be start + duration" % (i, op, st[0], st[1], st[4], rdur))
    if CHECK_ATTR[0] and st[4] != rdur:
        return ("duration-attribute: after op %d %r: .duration is %s, but the timer's duration is %s (start %s stop %s)"
                % (i, op, st[4], rdur, st[0], st[1]))
    return None


def prop_check(kind, dur, readings, ops, stamp0=None):
    """The property's statement, executable, on the IMPLEMENTATION alone.
    Returns None or a description of the failure."""
    outs, obs = run_impl(kind, dur, readings, ops, stamp0)
    for o in outs:
        if o[0] == "?":
            return "unexpected result/exception %s" % (o[1],)
    if kind in ("mono_retro", "mono_raise"):
        # replay the clock: which reading each call sees
        rd = list(readings)
        cur = [0.0]

        def nxt():
            if rd:
                cur[0] = rd.pop(0)
            return Fraction(cur[0])
        latest = nxt()
        r2 = nxt()
        if outs[0][0] == "E":
            if kind == "mono_retro":
                return "constructor raised %s although retro=True" % outs[0][1]
            if not r2 < latest:
                return "constructor raised without a backward jump"
            return None
        if kind == "mono_raise" and r2 < latest:
            return "constructor did not raise on backward jump"
        latest = r2
        base = None   # last elapsed seen since the last (re)start
        prev = obs[0]
        rdur = abs(Fraction(dur))
        why = duration_check(-1, ("constructor",), prev, rdur)
        if why:
            return why
        for i, op in enumerate(ops):
            r = nxt()
            o = outs[i + 1]
            st = obs[i + 1]
            back = r < latest
            if kind == "mono_raise":
                if back != (o == ("E", "TimerRetroError")):
                    return "op %d %r: reading %s after %s: raised=%r" % (i, op, r, latest, o)
                if back:
                    if st[:3] != prev[:3]:
                        return "op %d: state changed by a raising call" % i
                    continue
            else:
                if o[0] == "E":
                    return "op %d %r raised %s although retro=True" % (i, op, o[1])
            shift = min(Fraction(0), r - latest)
            latest = r
            pstart, pstop = prev[0] + shift, prev[1] + shift
            if op[0] == "elapsed":
                if o != ("Q", max(Fraction(0), r - pstart)):
                    return "op %d elapsed=%s, clock %s start(shifted) %s" % (i, o[1], r, pstart)
                if base is not None and o[1] < base:
                    return "elapsed decreased from %s to %s at op %d (%r)" % (base, o[1], i, ops[:i + 1])
                base = o[1]
            elif op[0] == "remaining":
                if o != ("Q", max(Fraction(0), pstop - r)):
                    return "op %d remaining=%s, clock %s stop(shifted) %s" % (i, o[1], r, pstop)
            elif op[0] == "expired":
                if o != ("B", r >= pstop):
                    return "op %d expired=%s, clock %s stop(shifted) %s" % (i, o[1], r, pstop)
            elif op[0] == "repeat":
                if st[0] != pstop:
                    return "op %d repeat started at %s, previous stop (shifted) %s" % (i, st[0], pstop)
                base = None
            elif op[0] == "extend":
                if st[0] != pstart:
                    return "op %d extend moved start from %s (shifted) to %s" % (i, pstart, st[0])
            elif op[0] == "restart":
                base = None
            if op[0] in ("elapsed", "remaining", "expired") and (st[0], st[1]) != (pstart, pstop):
                return "op %d: start/stop not shifted by the backward jump exactly" % i
            rdur = ref_duration(rdur, op)
            why = duration_check(i, op, st, rdur)
            if why:
                return why + " history %r" % (ops[:i + 1],)
            prev = st
        return None
    # Timer / StoreTimer
    rd = list(readings)
    cur = [0.0]

    def nxt():
        if rd:
            cur[0] = rd.pop(0)
        return Fraction(cur[0])
    if kind == "timer":
        nxt()
    stamp = F(stamp0)
    if outs[0][0] == "E" or not obs:
        return "constructor raised %s (duration %r, store.stamp %r)" % (outs[0][1], dur, stamp0)
    prev = obs[0]
    # constructor: starts at the clock (Timer) / at store.stamp, 0.0 when the stamp is None (StoreTimer)
    want0 = abs(Fraction(readings[0]) if (kind == "timer" and readings) else
                (Fraction(0) if kind == "timer" or stamp is None else stamp))
    if (prev[0], prev[1]) != (want0, want0 + abs(Fraction(dur))):
        return "constructor: start/stop %s/%s, expected %s/%s" % (prev[0], prev[1], want0, want0 + abs(Fraction(dur)))
    j = 0
    rdur = abs(Fraction(dur))
    for i, op in enumerate(ops):
        st = obs[i + 1]
        if op[0] == "stamp":
            stamp = F(op[1])
            continue
        j += 1
        o = outs[j]
        if o[0] == "E":
            if kind == "store" and stamp is None:
                return None if True else None  # stamp None: TypeError is outside the statement; stop here
            return "op %d %r raised %s" % (i, op, o[1])
        if op[0] in ("elapsed", "remaining", "expired"):
            r = nxt() if kind == "timer" else stamp
            if op[0] == "elapsed" and o != ("Q", max(Fraction(0), r - prev[0])):
                return "op %d elapsed=%s, clock %s start %s" % (i, o[1], r, prev[0])
            if op[0] == "remaining" and o != ("Q", max(Fraction(0), prev[1] - r)):
                return "op %d remaining=%s, clock %s stop %s" % (i, o[1], r, prev[1])
            if op[0] == "expired":
                want = (r is not None) and r >= prev[1]
                if o != ("B", want):
                    return "op %d expired=%s, clock %s stop %s" % (i, o[1], r, prev[1])
            if st[:2] != prev[:2]:
                return "op %d: a query changed start/stop" % i
        elif op[0] == "repeat":
            # restarts exactly at the previous stop (also when that stop is 0.0), same duration
            pdur = prev[1] - prev[0]
            if prev[1] >= 0 and (st[0], st[1]) != (prev[1], prev[1] + pdur):
                return "op %d repeat: start/stop %s/%s, previous stop %s duration %s (clock %s)" % (
                    i, st[0], st[1], prev[1], pdur, stamp if kind == "store" else cur[0])
        elif op[0] == "extend":
            # keeps the start (also a start of 0.0); duration becomes |duration + extension|
            pdur = prev[1] - prev[0]
            ndur = abs(pdur + (pdur if op[1] is None else Fraction(op[1])))
            if prev[0] >= 0 and (st[0], st[1]) != (prev[0], prev[0] + ndur):
                return "op %d extend: start/stop %s/%s, previous start %s new duration %s (clock %s)" % (
                    i, st[0], st[1], prev[0], ndur, stamp if kind == "store" else cur[0])
        elif op[0] == "restart":
            # restart(start=x) starts at |x| (also x == 0.0); restart() starts at the clock / stamp
            if op[1] is not None:
                ws = abs(Fraction(op[1]))
            elif kind == "timer":
                ws = nxt()
            else:
                ws = stamp
            wd = abs(Fraction(op[2])) if op[2] is not None else prev[1] - prev[0]
            if ws is not None and (st[0], st[1]) != (ws, ws + wd):
                return "op %d %r: start/stop %s/%s, expected %s/%s (clock %s)" % (
                    i, op, st[0], st[1], ws, ws + wd, stamp if kind == "store" else cur[0])
        rdur = ref_duration(rdur, op)
        why = duration_check(i, op, st, rdur)
        if why:
            return why
        prev = st
    return None


# --------------------------------------------------------------------------- Coq rendering
def cqo(x):
    return copt(x, lambda v: cq(Fraction(v)))


def c_op(op):
    k = op[0]
    if k == "elapsed":
        return "Elapsed"
    if k == "remaining":
        return "Remaining"
    if k == "expired":
        return "Expired"
    if k == "restart":
        return "Restart %s %s" % (cqo(op[1]), cqo(op[2]))
    if k == "repeat":
        return "Repeat"
    if k == "extend":
        return "Extend %s" % cqo(op[1])
    raise RuntimeError(op)


def c_ops(ops, store=False):
    if not store:
        return clist([c_op(o) for o in ops], "op")
    return clist(["SetStamp %s" % cqo(o[1]) if o[0] == "stamp" else "SOp (%s)" % c_op(o) for o in ops], "sop")


def c_out(o):
    if o[0] == "Q":
        return "OQ %s" % cq(o[1])
    if o[0] == "B":
        return "OB %s" % cbool(o[1])
    if o[0] == "SS":
        return "OSS %s %s" % (cq(o[1]), cq(o[2]))
    if o[0] == "E":
        return "OErr %s" % o[1]
    if o[0] == "L":
        return "OLeft %d" % o[1]
    return "OErr NameError"  # unexpected implementation result: never equals a model value


def c_outs(outs):
    return clist([c_out(o) for o in outs], "out")


def model_expr(kind, dur, readings, ops, stamp0):
    rl = clist([cq(Fraction(r)) for r in readings], "Q")
    d = cq(Fraction(dur))
    if kind == "timer":
        return "t_run %s %s %s" % (d, rl, c_ops(ops))
    if kind == "store":
        return "s_run %s %s %s" % (cqo(stamp0), d, c_ops(ops, True))
    return "m_run %s %s %s %s" % (cbool(kind == "mono_retro"), d, rl, c_ops(ops))


HEADER = """From Coq Require Import List QArith Bool.
Import ListNotations.
Require Import V.Lib.C42_StoreTimer V.C42.Model.
Open Scope Q_scope.
Definition err_eqb (a b : err) : bool := match a, b with
  | TimerRetroError, TimerRetroError | TypeError, TypeError | NameError, NameError | ValueError, ValueError => true
  | _, _ => false end.
Definition out_eqb (a b : out) : bool := match a, b with
  | OQ x, OQ y => Qeq_bool x y
  | OB x, OB y => Bool.eqb x y
  | OSS x1 x2, OSS y1 y2 => Qeq_bool x1 y1 && Qeq_bool x2 y2
  | OErr x, OErr y => err_eqb x y
  | OLeft x, OLeft y => Nat.eqb x y
  | _, _ => false end.
Fixpoint outs_eqb (a b : list out) : bool := match a, b with
  | [], [] => true | x :: a', y :: b' => out_eqb x y && outs_eqb a' b' | _, _ => false end.
"""

# --------------------------------------------------------------------------- generators
ALPHA = [("elapsed",), ("remaining",), ("expired",), ("restart", None, None), ("restart", 2.0, None),
         ("restart", None, 3.0), ("repeat",), ("extend", None), ("extend", 1.0), ("extend", -1.5)]


def dy(rng, lo, hi):
    """random dyadic (multiple of 1/8) in [lo, hi]"""
    return rng.randint(int(lo * 8), int(hi * 8)) / 8.0


def rand_trace(rng, n, base, coarse=False):
    """clock readings: forward steps, standstills, backward jumps (never negative).
    coarse: integer steps, so that clock == stop / clock == start boundaries are hit often"""
    cur, out = base, []
    for _ in range(n):
        u = rng.random()
        if u < 0.55:
            cur += float(rng.randint(1, 3)) if coarse else dy(rng, 0.125, 6)
        elif u < 0.75:
            pass
        elif u < 0.95:
            cur = max(0.0, cur - (float(rng.randint(1, 4)) if coarse else dy(rng, 0.125, 12)))
        else:
            cur = float(rng.randint(0, 2)) if coarse else dy(rng, 0, 3)   # near zero (start may shift negative)
        out.append(cur)
    return out


def rand_op(rng, coarse=False):
    if coarse:
        u = rng.random()
        if u < 0.5:
            return (rng.choice(["elapsed", "remaining", "expired", "expired"]),)
        if u < 0.62:
            return ("restart", rng.choice([None, 2.0, 5.0]), rng.choice([None, 1.0, 2.0, 3.0]))
        if u < 0.8:
            return ("repeat",)
        return ("extend", rng.choice([None, 1.0, 2.0, -1.0]))
    u = rng.random()
    if u < 0.22:
        return ("elapsed",)
    if u < 0.36:
        return ("remaining",)
    if u < 0.50:
        return ("expired",)
    if u < 0.62:
        s = None if rng.random() < 0.5 else dy(rng, -4, 60)
        d = None if rng.random() < 0.5 else dy(rng, -3, 12)
        return ("restart", s, d)
    if u < 0.78:
        return ("repeat",)
    return ("extend", None if rng.random() < 0.3 else dy(rng, -6, 8))


def histories(ctx):
    """yield (kind, dur, readings, ops, stamp0, label)"""
    # 1. small scope, exhaustive: every op sequence of length <= L over ALPHA x every clock
    #    trace over 3 readings (one reading per clock call: 1 or 2 for the constructor + 1 per op)
    L = ctx.n(2, 3)
    vals = [1.0, 4.0, 9.0]
    for kind in ("timer", "mono_retro", "mono_raise"):
        nctor = 1 if kind == "timer" else 2
        for n in range(0, L + 1):
            seqs = list(itertools.product(ALPHA, repeat=n))
            traces = list(itertools.product(vals, repeat=nctor + n))
            if n == 3:   # thorough only: all op triples x a seeded sample of 40 traces
                traces = ctx.rng.sample(traces, 40)
            elif n == 2 and not ctx.thorough and len(traces) > 8:
                traces = ctx.rng.sample(traces, 8)   # quick: all op pairs x 8 sampled traces
            for ops in seqs:
                for tr in traces:
                    yield (kind, 3.0, list(tr), list(ops), None, "small")   # 1 + 3 = 4: clock == stop is hit
    # StoreTimer: stamps interleaved
    stamps = [None, 0.0, 2.0, 5.0, 3.0]
    for s0 in (None, 1.0):
        for n in range(0, L + 1):
            for ops in itertools.product(ALPHA, repeat=n):
                for st in itertools.product(stamps[1:], repeat=n):
                    h = []
                    for o, s in zip(ops, st):
                        h.append(("stamp", s))
                        h.append(o)
                    if n == 3 and ctx.rng.random() > 0.1:
                        continue
                    if n == 2 and not ctx.thorough and ctx.rng.random() > 0.25:
                        continue
                    yield ("store", 2.0, [], h, s0, "small")   # stamps 0,2,3,5 hit start + 2 exactly
    # extend followed by repeat / restart() / restart(duration) / extend, all classes, queries after every op
    q = [("remaining",), ("expired",), ("elapsed",)]
    for e1 in (("extend", 5.0), ("extend", None), ("extend", -1.5)):
        for follow in (("repeat",), ("restart", None, None), ("extend", 5.0), ("extend", None), ("restart", 3.0, None)):
            body = [e1] + q + [follow] + q + [("repeat",)] + q
            for kind in ("timer", "mono_retro", "mono_raise"):
                n = len(body) + 2
                yield (kind, 10.0, [100.0 + 2.0 * k for k in range(n)], body, None, "extend-then")
                yield (kind, 10.0, [100.0] * 2 + [113.0 + 6.0 * k for k in range(n)], body, None, "extend-then")
            yield ("mono_retro", 10.0, [100.0, 100.0, 104.0, 60.0, 61.0, 62.0, 63.0, 40.0] + [45.0 + 4.0 * k for k in range(12)],
                   body, None, "extend-then")
            h = []
            for k, o in enumerate(body):
                h += [("stamp", 2.0 + 3.0 * k), o]
            yield ("store", 10.0, [], h, 0.0, "extend-then")
    # zeros: start / stop / explicit start exactly 0.0 while the stamp has moved on (and Timer with clock 0)
    for d0 in (0.0, 2.0):
        for o in ALPHA + [("restart", 0.0, None), ("restart", 0.0, 1.0)]:
            for s0 in (0.0, None):
                yield ("store", d0, [], [("stamp", 5.0), o, ("elapsed",), ("remaining",)], s0, "zero")
                yield ("store", d0, [], [("stamp", 0.0), o, ("stamp", 3.0), ("repeat",), ("extend", None)], s0, "zero")
            yield ("timer", d0, [0.0, 5.0, 6.0], [o, ("elapsed",), ("repeat",)], None, "zero")
    # stamp None paths: queries and restarts with explicit start
    for o in ALPHA:
        yield ("store", 1.0, [], [o], None, "none-stamp")
        yield ("store", 1.0, [], [("stamp", 2.0), o, ("stamp", None), ("expired",), ("restart", 1.0, None)], None, "none-stamp")
    # 2. seeded random long histories
    for _ in range(ctx.n(400, 6000)):
        kind = ctx.rng.choice(["timer", "mono_retro", "mono_retro", "mono_raise", "store"])
        n = ctx.rng.randint(1, 30)
        coarse = ctx.rng.random() < 0.5
        ops = [rand_op(ctx.rng, coarse) for _ in range(n)]
        dur = float(ctx.rng.randint(1, 3)) if coarse else dy(ctx.rng, -2, 10)
        if kind == "store":
            h, cur = [], (float(ctx.rng.randint(0, 4)) if coarse else dy(ctx.rng, 0, 5))
            s0 = None if ctx.rng.random() < 0.2 else cur
            have = s0 is not None
            for o in ops:
                if ctx.rng.random() < 0.6 or not have:
                    stp = float(ctx.rng.randint(0, 3)) if coarse else dy(ctx.rng, 0, 5)
                    cur = max(0.0, cur + (stp if ctx.rng.random() < 0.8 else -stp))
                    h.append(("stamp", cur))
                    have = True
                h.append(o)
            yield ("store", dur, [], h, s0, "random")
        else:
            base = ctx.rng.choice([0.0, 10.0, 100.0, 1.0e6])
            tr = rand_trace(ctx.rng, n + 2 - ctx.rng.randint(0, 2), base, coarse)
            yield (kind, dur, tr, ops, None, "random")


def ser(kind, dur, readings, ops, stamp0):
    return {"class": kind, "duration": dur, "clock_readings": readings, "ops": [list(o) for o in ops],
            "stamp0": stamp0}


def run(ctx):
    ctx.rule = ("histories = constructor + op list (elapsed/remaining/expired/restart/repeat/extend, "
                "StoreTimer: interleaved stamp changes incl. None) with a clock oracle (one reading per "
                "time.time() call: forward, standstill, backward), run on the real Timer/MonoTimer/StoreTimer "
                "with ioflo.aid.timing's `time` replaced by a double, and on the Coq model (Q); compared "
                "output by output incl. the number of readings left; non-trivial = >= 2 ops and (a backward "
                "jump or a repeat/extend/restart present)")
    ctx.assumptions = [
        "clock double: time.time() returns the next oracle reading; exhausted oracle = clock stands still",
        "all times dyadic (k/8, |x| < 2**24): binary64 +,-,abs,max,>= are exact, so Q is the float semantics",
        "StoreTimer.restart() without start while store.stamp is None leaves start=None (TypeError); "
        "the model reports the TypeError and keeps the old state; the harness ends such histories there",
        "theorems about non-negative start/stop assume clock readings >= 0 (time.time() after 1970)",
    ]
    ctx.coq_build("C42/Props.v")

    cases, metas = [], []
    for kind, dur, readings, ops, s0, label in histories(ctx):
        outs, _ = run_impl(kind, dur, readings, ops, s0)
        back = any(b < a for a, b in zip(readings, readings[1:]))
        nops = [o for o in ops if o[0] != "stamp"]
        nt = len(nops) >= 2 and (back or any(o[0] in ("repeat", "extend", "restart") for o in nops))
        ctx.case({"h": ser(kind, dur, readings, ops, s0), "outs": [[str(x) for x in o] for o in outs]},
                 nontrivial=nt, kind="%s/%s" % (kind, label))
        cases.append((model_expr(kind, dur, readings, ops, s0), c_outs(outs)))
        metas.append((kind, dur, readings, ops, s0, outs))
    bad = ctx.coq_cases(HEADER, "outs_eqb", cases, shard=200)
    for i in bad[:5]:
        kind, dur, readings, ops, s0, outs = metas[i]
        ctx.tie_broken("correspondence", "C42 model vs ioflo.aid.timing.%s" % kind,
                       "history=%r impl_outputs=%r" % (ser(kind, dur, readings, ops, s0), outs))
    ctx.extra["mismatches"] = len(bad)
    ctx.exhaustive = False

    def search():
        best = None

        def consider(kind, dur, readings, ops, s0):
            nonlocal best
            why = prop_check(kind, dur, readings, ops, s0)
            if why and (best is None or len(ops) + len(readings) < best["_size"]):
                outs, obs = run_impl(kind, dur, readings, ops, s0)
                best = dict(ser(kind, dur, readings, ops, s0), _size=len(ops) + len(readings),
                            impl_outputs=[[str(x) for x in o] for o in outs], why=why,
                            contradicts="C42.Props (elapsed/remaining/expired specs, "
                                        "mono_elapsed_never_decreases, mono_raises_on_backstep)",
                            key="timer-" + kind)
        # disagreeing cases first, then everything that was run
        for i in bad:
            consider(*metas[i][:5])
        if best is None:
            for m in metas:
                consider(*m[:5])
        if best is None:
            return None
        # shrink: drop ops / readings greedily while the implementation still fails
        kind, dur, readings, ops, s0 = (best["class"], best["duration"], list(best["clock_readings"]),
                                        [tuple(o) for o in best["ops"]], best["stamp0"])
        changed = True
        while changed:
            changed = False
            for i in range(len(ops)):
                cand = ops[:i] + ops[i + 1:]
                for rd in ([readings] if kind == "store" else
                           [readings[:j] + readings[j + 1:] for j in range(len(readings))] + [readings]):
                    if prop_check(kind, dur, rd, cand, s0):
                        ops, readings, changed = cand, rd, True
                        break
                if changed:
                    break
        others = {}
        for m in metas:   # one (smallest) example of every other kind of failure, unshrunk
            why = prop_check(*m[:5])
            if why:
                cat = (m[0], why.split(" ")[0] if not why.startswith("op ") else why.split(" ")[2])
                sz = len(m[3]) + len(m[2])
                if cat not in others or sz < others[cat][0]:
                    others[cat] = (sz, dict(ser(*m[:5]), why=why))
        best = None
        consider(kind, dur, readings, ops, s0)
        best.pop("_size", None)
        best["other_failing_inputs"] = [v[1] for _, v in sorted(others.items())][:8]
        if best["why"].startswith("duration-attribute"):
            # the stale attribute alone is already a failure; also show its smallest visible consequence
            CHECK_ATTR[0] = False
            try:
                vis = None
                for m in metas:
                    if vis is not None and len(m[3]) + len(m[2]) >= vis[0]:
                        continue
                    why = prop_check(*m[:5])
                    if why:
                        vis = (len(m[3]) + len(m[2]), m, why)
                if vis is not None:
                    kind, dur, readings, ops, s0 = vis[1][:5]
                    ops = list(ops)
                    i = 0
                    while i < len(ops):          # drop ops greedily (readings are kept)
                        cand = ops[:i] + ops[i + 1:]
                        if prop_check(kind, dur, readings, cand, s0):
                            ops = cand
                        else:
                            i += 1
                    outs, _ = run_impl(kind, dur, readings, ops, s0)
                    best["visible_consequence"] = dict(ser(kind, dur, readings, ops, s0),
                                                       why=prop_check(kind, dur, readings, ops, s0),
                                                       impl_outputs=[[str(x) for x in o] for o in outs])
            finally:
                CHECK_ATTR[0] = True
        return best

    ctx.settle(search)
