"""
C17 -- direct data literals convert to the documented typed values.

Tie T : props/C17/translate.py extracts, on every run, the step ORDER of every Convert2* function,
        the regex SOURCES, the point classes and the call-site table from building.py / globaling.py
        into coq/gen/C17_Chain.v (fail-closed).
Tie H : coq/C17/Model.v has hand matchers for every regex and for int()/float()/complex() text
        grammars, and a generic interpreter `conv` driven by the GENERATED chains.
Theorems (coq/C17/Props.v) are stated over the generated chains.
Correspondence:
  A. every hand matcher against Python `re` / int / float / complex, exhaustively over all
     strings up to a length over a small per-matcher alphabet;
  B. every Convert2* function called directly on a literal grammar, compared with `conv`;
  D. the float oracle: float(repr(x)) == x and float_shape(repr(x)) on sampled doubles (grid + random bit
     patterns), float_shape Coq-vs-Python transliteration, conv on the repr texts vs the real converters;
  C. the same literals through the real Builder (init / put / set / inc / do with,cum / need
     goal / tolerance / framer period / bid period): stored share value or act parms, value and TYPE.
"""
import itertools
import os
import re as _re
import sys
import time

sys.path.insert(0, os.path.dirname(os.path.abspath(__file__)))
import translate  # noqa: E402

LEVEL = "proof"

HEADER = ("From Coq Require Import List ZArith Bool String.\nImport ListNotations.\n"
          "Require Import V.C17.Model V.gen.C17_Chain.\nOpen Scope Z_scope.\n")

SENT = 10 ** 12  # separator used in flat encodings (no value reaches it in the enumerations)

ENC = HEADER + """
Definition et (s : list Z) : list Z := Z.of_nat (List.length s) :: s.
Definition kidx (k : pkind) : Z :=
  match k with Pxy => 0 | Pne => 1 | Pfs => 2 | Pxyz => 3 | Pned => 4 | Pfsb => 5 end.
Definition enc (r : result) : list Z :=
  match r with
  | Err => [9]
  | Ok VNone => [0]
  | Ok (VBool b) => [1; if b then 1 else 0]
  | Ok (VInt z) => [2; z]
  | Ok (VStr s) => 3 :: et s
  | Ok (VPath s) => 4 :: et s
  | Ok (VPoint k gs) => 5 :: kidx k :: Z.of_nat (List.length gs) :: flat_map et gs
  | Ok (VLatLon n d m) => 6 :: (if n then 1 else 0) :: et d ++ et m
  | Ok (VFloatText s) => 7 :: et s
  | Ok (VComplexText s) => 8 :: et s
  end.
Definition ench {A} (g : A -> list Z) (h : list (list Z * A)) : list Z :=
  flat_map (fun p => fst p ++ (%d) :: g (snd p) ++ [%d]) h.
Definition gg (gs : list (list Z)) : list Z := flat_map (fun g => g ++ [%d]) gs.
""" % (SENT, SENT + 1, SENT + 2)

KINDS = ["Pxy", "Pne", "Pfs", "Pxyz", "Pned", "Pfsb"]
CHAINS = ["Num", "CoordNum", "BoolCoordNum", "StrBoolCoordNum", "PointNum", "CoordPointNum",
          "BoolCoordPointNum", "PathCoordPointNum", "BoolPathCoordPointNum",
          "StrBoolPathCoordPointNum", "StripQuotes"]


def zl(s):
    return "[" + "; ".join(str(ord(c)) for c in s) + "]" if s else "(@nil Z)"


def fn_name(chain):
    return chain if chain == "StripQuotes" else "Convert2" + chain


# ---------------------------------------------------------------------------------------------
def gen(ctx):
    """regenerate coq/gen/C17_Chain.v from ctx.repo; returns translator info or None"""
    try:
        text, info = translate.translate(ctx.repo)
    except Exception as ex:  # fail closed
        ctx.tie_broken("translator", "props/C17/translate.py", repr(ex))
        return None
    ctx.write_gen("C17_Chain.v", text)
    return info


# ---------------------------------------------------------------------------------------------
def coq_flat(ctx, header, exprs, name, timeout=600):
    """evaluate Coq terms of type list Z; returns list of python int lists"""
    lines = [header, ""]
    for i, e in enumerate(exprs):
        lines.append("Definition ev_%d := Eval vm_compute in (%s)." % (i, e))
        lines.append("Print ev_%d." % i)
    rc, out = ctx.coq_run("\n".join(lines), name, timeout)
    if rc != 0:
        why = ("out of memory" if "out of memory" in out[-400:].lower() else
               "timeout" if rc == 124 or "[TIMEOUT" in out[-200:] else "error")
        m = _re.search(r'File "[^"]*", line \d+, characters [^\n]*\n(?:.*\n){0,6}', out)
        raise RuntimeError("coqc %s on %s.v (rc=%s, %d exprs, %d bytes of output): %s"
                           % (why, name, rc, len(exprs), len(out), (m.group(0) if m else out[-300:]).strip()))
    res = []
    pos = 0
    for i in range(len(exprs)):
        m = _re.compile(r"ev_%d\s*=\s*(.*?)\n\s*:\s*list Z" % i, _re.S).search(out, pos)
        if not m:
            raise RuntimeError("cannot find the value of ev_%d in the output of %s.v (%d bytes): ...%s"
                               % (i, name, len(out), out[-300:].strip()))
        pos = m.end()
        res.append([int(x) for x in _re.findall(r"-?\d+", m.group(1).replace("%Z", ""))])
    return res


def decode_stream(flat):
    """decode a concatenation of `enc` outputs"""
    out, i = [], 0

    def txt():
        nonlocal i
        n = flat[i]
        s = "".join(chr(c) for c in flat[i + 1:i + 1 + n])
        i += 1 + n
        return s
    while i < len(flat):
        tag = flat[i]
        i += 1
        if tag == 9:
            out.append(("err",))
        elif tag == 0:
            out.append(("none",))
        elif tag == 1:
            out.append(("bool", bool(flat[i])))
            i += 1
        elif tag == 2:
            out.append(("int", flat[i]))
            i += 1
        elif tag == 3:
            out.append(("str", txt()))
        elif tag == 4:
            out.append(("path", txt()))
        elif tag == 5:
            k, n = flat[i], flat[i + 1]
            i += 2
            out.append(("point", KINDS[k], [txt() for _ in range(n)]))
        elif tag == 6:
            neg = bool(flat[i])
            i += 1
            d = txt()
            m = txt()
            out.append(("latlon", neg, d, m))
        elif tag == 7:
            out.append(("float", txt()))
        elif tag == 8:
            out.append(("complex", txt()))
        else:
            raise RuntimeError("bad tag %r in model output" % tag)
    return out


def model_conv(ctx, texts, chains, name="conv"):
    """model results of every chain in `chains` on every text: list (per text) of list (per chain)"""
    from concurrent.futures import ThreadPoolExecutor
    shard = 500
    shards = [texts[i:i + shard] for i in range(0, len(texts), shard)]
    cl = "[" + "; ".join("chain_" + c for c in chains) + "]"

    def one(k):
        expr = "flat_map (fun t => flat_map (fun c => enc (conv c t)) %s) [%s]" % (
            cl, ";\n".join(zl(t) for t in shards[k]))
        flat = coq_flat(ctx, ENC, [expr], "%s_%d" % (name, k))[0]
        r = decode_stream(flat)
        if len(r) != len(shards[k]) * len(chains):
            raise RuntimeError("model output length mismatch")
        return [r[i * len(chains):(i + 1) * len(chains)] for i in range(len(shards[k]))]
    with ThreadPoolExecutor(max_workers=12) as ex:
        res = list(ex.map(one, range(len(shards))))
    ctx.checker_cmds.append("coqc %s_<shard>.v (Eval vm_compute of conv over the generated chains, %d shards)"
                            % (name, len(shards)))
    return [x for r in res for x in r]


def canon_impl(fn, text):
    """run a converter; canonical, comparable description of what it returned"""
    try:
        v = fn(text)
    except ValueError:
        return ("err",), None
    except Exception as ex:  # any other class is itself a disagreement
        return ("exc", type(ex).__name__), None
    return describe(v), v


def describe(v):
    if v is None:
        return ("none",)
    if type(v) is bool:
        return ("bool", v)
    if type(v) is int:
        return ("int", v)
    if type(v) is str:
        return ("str", v)
    if type(v) is float:
        return ("float", v.hex())
    if type(v) is complex:
        return ("complex", repr(v))
    if isinstance(v, tuple) and hasattr(v, "_fields"):
        return ("point", type(v).__name__, list(v._fields),
                [x.hex() if type(x) is float else repr(x) for x in v])
    return ("other", type(v).__name__, repr(v))


def agree(model, impl, points):
    """model: decoded Coq value; impl: describe()d implementation value"""
    t = model[0]
    if t in ("err", "none"):
        return impl == model
    if t in ("bool", "int"):
        return impl == model
    if t in ("str", "path"):
        return impl == ("str", model[1])
    try:
        if t == "float":
            return impl == ("float", float(model[1]).hex())
        if t == "complex":
            return impl == ("complex", repr(complex(model[1])))
        if t == "latlon":
            x = float(model[2]) + float(model[3]) / 60.0
            return impl == ("float", (-x if model[1] else x).hex())
        if t == "point":
            return impl == ("point", model[1], points[model[1]], [float(g).hex() for g in model[2]])
    except ValueError:
        return False
    return False


# --------------------------------------------------------------------------------------------- A
def matcher_table(ctx, g):
    """(name, coq function : list Z -> option X, coq encoder of X, python oracle, alphabet, maxlen)"""
    T = []

    def rx_bool(name):
        reo = getattr(g, name)
        return lambda s: [] if reo.match(s) else None

    def rx_find(name):
        reo = getattr(g, name)

        def f(s):
            r = reo.findall(s)
            if not r:
                return None
            return list(r[0]) if isinstance(r[0], tuple) else [r[0]]
        return f

    n = ctx.n
    T.append(("REO_Quoted", "rx_groups REO_Quoted", rx_bool("REO_Quoted"), "\"'a# ", n(5, 7)))
    T.append(("REO_QuotedSingle", "rx_groups REO_QuotedSingle", rx_bool("REO_QuotedSingle"), "\"'a# ", n(5, 7)))
    T.append(("REO_PathNode", "rx_groups REO_PathNode", rx_bool("REO_PathNode"), "a_1.-Z", n(5, 7)))
    T.append(("REO_LatLonNE", "rx_groups REO_LatLonNE", rx_find("REO_LatLonNE"), "1.Nn,Sex-", n(4, 6)))
    T.append(("REO_LatLonNE", "rx_groups REO_LatLonNE", rx_find("REO_LatLonNE"), "12.E,", n(6, 8)))
    T.append(("REO_LatLonSW", "rx_groups REO_LatLonSW", rx_find("REO_LatLonSW"), "1.Ss,Nwx-", n(4, 6)))
    T.append(("REO_LatLonSW", "rx_groups REO_LatLonSW", rx_find("REO_LatLonSW"), "12.W,", n(6, 8)))
    for nm, a2, a3 in [("REO_PointXY", "1-+.xyX,a", "1-.xy,Y"), ("REO_PointNE", "1-+.neN,a", "1-.ne,E"),
                       ("REO_PointFS", "1-+.fsF,a", "1-.fs,S")]:
        T.append((nm, "rx_groups " + nm, rx_find(nm), a2, n(4, 6)))
        T.append((nm, "rx_groups " + nm, rx_find(nm), a3, n(5, 6)))
    for nm, ls in [("REO_PointXYZ", "xyz"), ("REO_PointNED", "ned"), ("REO_PointFSB", "fsb")]:
        T.append((nm, "rx_groups " + nm, rx_find(nm), "1-" + ls + ",", n(6, 7)))
        T.append((nm, "rx_groups " + nm, rx_find(nm), "1." + ls, n(7, 8)))

    def py_int(base):
        def f(s):
            try:
                return int(s, base)
            except ValueError:
                return None
        return f

    def py_ok(conv_):
        def f(s):
            try:
                conv_(s)
                return []
            except ValueError:
                return None
        return f
    FL = "fun s => if float_ok s then Some (@nil (list Z)) else None"
    CX = "fun s => if complex_ok s then Some (@nil (list Z)) else None"
    T.append(("int10", "int_of 10", py_int(10), "01a9_-+xg", n(4, 6)))
    T.append(("int16", "int_of 16", py_int(16), "01afx_-+gX", n(4, 5)))
    T.append(("int16", "int_of 16", py_int(16), "0xX_1F", n(5, 7)))
    T.append(("float", FL, py_ok(float), "1.e-+_nE", n(4, 6)))
    T.append(("float", FL, py_ok(float), "infatyINn-+1.", n(3, 5)))
    if ctx.thorough:
        T.append(("float", FL, py_ok(float), "infty", 8))
    T.append(("complex", CX, py_ok(complex), "1.e-+_jJ()", n(4, 5)))
    T.append(("complex", CX, py_ok(complex), "1+-j()", n(5, 7)))
    T.append(("complex", CX, py_ok(complex), "infa-+jn1", n(4, 6)))
    return T


def check_matchers(ctx, g):
    from concurrent.futures import ThreadPoolExecutor
    T = matcher_table(ctx, g)

    # all matcher enumerations are evaluated by a handful of coqc processes (groups balanced by size)
    NG = 6
    sizes = [sum(len(T[k][3]) ** n for n in range(T[k][4] + 1)) for k in range(len(T))]
    groups = [[] for _ in range(NG)]
    for k in sorted(range(len(T)), key=lambda k: -sizes[k]):
        min(groups, key=lambda g_: sum(sizes[j] for j in g_)).append(k)

    def exprs_of(k):
        name, cf, py, alpha, maxlen = T[k]
        genc = "(fun z : Z => [z])" if name.startswith("int") else "gg"
        return ["ench %s (hits (%s) %s %d)" % (genc, cf, zl(alpha), n) for n in range(maxlen + 1)]

    def run_group(gi):
        ex_ = [e for k in groups[gi] for e in exprs_of(k)]
        flats = coq_flat(ctx, ENC, ex_, "match_%d" % gi) if ex_ else []
        out, pos = {}, 0
        for k in groups[gi]:
            n = T[k][4] + 1
            out[k] = flats[pos:pos + n]
            pos += n
        return out

    t_a = time.time()
    with ThreadPoolExecutor(max_workers=NG) as ex:
        flat_by_k = {}
        for d in ex.map(run_group, range(NG)):
            flat_by_k.update(d)
    ctx.extra["matcher_coq_seconds"] = round(time.time() - t_a, 1)

    def one(k):
        name, cf, py, alpha, maxlen = T[k]
        isint = name.startswith("int")
        flats = flat_by_k[k]
        model = {}
        for flat in flats:
            cur, parts = [], []
            for x in flat:
                if x == SENT:
                    parts = [cur]
                    cur = []
                elif x == SENT + 2:
                    parts.append(cur)
                    cur = []
                elif x == SENT + 1:
                    s = "".join(chr(c) for c in parts[0])
                    if isint:
                        model[s] = cur[0]
                    else:
                        model[s] = ["".join(chr(c) for c in p) for p in parts[1:]]
                    cur, parts = [], []
                else:
                    cur.append(x)
        bad, total, acc = [], 0, []
        for n in range(maxlen + 1):
            for tup in itertools.product(alpha, repeat=n):
                s = "".join(tup)
                total += 1
                want = py(s)
                got = model.get(s)
                if want is not None or got is not None:
                    acc.append((s, want))
                if want != got:
                    bad.append((s, want, got))
        return name, alpha, maxlen, total, acc, bad

    res = [one(k) for k in range(len(T))]
    ctx.checker_cmds.append("coqc match_<k>.v (Eval vm_compute of every hand matcher over all strings up to a "
                            "length over a small alphabet, compared with Python re/int/float/complex)")
    nbad = 0
    summary = {}
    for name, alpha, maxlen, total, acc, bad in res:
        summary.setdefault(name, [0, 0])
        summary[name][0] += total
        summary[name][1] += len(acc)
        # strings rejected by both sides are counted, accepted ones are the distinct non-trivial cases
        ctx.evaluations += total - len(acc)
        ctx.distribution["matcher:" + name] = ctx.distribution.get("matcher:" + name, 0) + total - len(acc)
        for s, want in acc:
            ctx.case({"matcher": name, "text": s, "python": want}, nontrivial=True, kind="matcher:" + name)
        for s, want, got in bad[:3]:
            nbad += 1
            ctx.tie_broken("correspondence", "hand matcher %s vs Python" % name,
                           "text=%r python=%r model=%r" % (s, want, got))
    ctx.extra["matcher_strings"] = {k: {"strings": v[0], "accepted_by_either": v[1]} for k, v in summary.items()}
    return nbad


# --------------------------------------------------------------------------------------------- B
def literal_grammar(ctx):
    L = []
    ints = ["0", "5", "-4", "+5", "007", "-0", "1_000", "1__0", "_1", "1_", "0x1f", "0X1F", "-0x1f", "0x_1f",
            "0x__1", "0x", "0x_", "1e5", "1E5", "fade", "bad", "dead", "face", "deadbeef", "FF", "0b1", "0o7",
            "12345678901234567890123", "-98765432109876543210", "a", "f", "g", "0xg", "+-1", "--1", "1-",
            "10", "16", "0_1", "00", "-007", "+0x10", "0x-1", "x1", "0x0", "9" * 40]
    floats = ["1.5", "-1.5", "+.5", "5.", "1e-5", "1.5e3", "1e+5", "1_0.5", "1._5", "1_.5", "inf", "-inf",
              "Infinity", "-INFINITY", "nan", "NaN", "+nan", "1e", "e5", ".", "-.", "1.5.2", "1e5.0", "1e-05",
              "1e+22", "0.1", "-0.0", "1.7976931348623157e+308", "5e-324", "1e400", "1e-400", "infinit",
              "1_0e1_0", "1e_1", "1.e1", ".e1", "0.5e", "1e+", "3.14", "100.0", "1E-7", "iNf", "in_f"]
    cplx = ["1j", "1+2j", "-1.5-2.5e3j", "j", "+j", "-J", "(1+2j)", "(1j", "1j)", "1+j", "1_0j", "1+-2j",
            "infj", "nan+nanj", "1e5j", "1e+5j", "1e+j", "()", "(1)", "(1.5)", "1+2", "1+2jj", "1j+2", "2.5J",
            "(j)", "((1j))", "1_0+2_0j", "1_+2j", "(-inf-infj)", "0j", "-0j", "(1e-3+0.5j)"]
    bools = ["True", "true", "TRUE", "tRuE", "yes", "Yes", "YES", "no", "No", "NO", "false", "False", "FALSE",
             "none", "None", "NONE", "nOnE", "truee", "ye", "on", "off", "n", "y", "t", "nil", "null", "yess"]
    quotes = ['""', '"a"', '"a b"', "''", "'a'", '"it\'s"', '\'"a"\'', '"""', '""""', '"a"b"', '"a', 'a"', "'a",
              '"5"', "'True'", '"\'"', "'\"'", '""a""', '"\'a\'"', "'5'", '"1x2y"', "'none'", '"', "'", "''''",
              '" "', "' a '", '"a.b"', "'120N10.5'", '"#"', "'a'b'", '\'"\'"', '"\'\'"', "'\"\"'"]
    paths = ["a", "a.b", ".a.b", "a.", ".a.b.", "a..b", ".", "..", "_a", "a_1.b2", "1a", "a-b", "a.1", "me", "x",
             "y", "e", "E", "n", "abc", "x.y.z", ".x", "A.B", "a.b.", "a.b..", ".a..", "a.b-c", "Z9._q", "a.b.c.d.e",
             "inff", "beef", "cafe.d", "goal", "elapsed"]
    latlon = ["120N10.5", "80W30.75", "10n10.5", "50E30.75", "1,2.5", "1S2.5", "1s2.5", "1w2.5", "12N5", "12N5.",
              "12N.5", "N1.5", "-1N1.5", "1N1.5x", "1e2.5", "1E2.5", "0n0.0", "007W08.090", "1N2.5e", "1NE2.5",
              "1N-2.5", "1N+2.5", "1.0N2.5", "1N2.5.1", "1N2_0.5", "99999999999999999999N1.1"]
    L += ints + floats + cplx + bools + quotes + paths + latlon
    coords = ["3", "-4", "+5", "1.5", "2.", ""] + ([".5", "-0.25"] if ctx.thorough else [])
    c3 = ["3", "-4", "2.", ""] + (["1.5"] if ctx.thorough else [])
    letters = {"Pxy": "xy", "Pne": "ne", "Pfs": "fs", "Pxyz": "xyz", "Pned": "ned", "Pfsb": "fsb"}
    for k, ls in letters.items():
        styles = [ls, ls.upper(), "," + ls[1:]] + ([ls[0] + "," + ls[2:]] if ctx.thorough else [])
        cs = coords if len(ls) == 2 else c3
        for st in styles:
            for tup in itertools.product(cs, repeat=len(ls)):
                L.append("".join(c + s for c, s in zip(tup, st)))
        L.append("1" + ls[0] + "2" + ls[1] + "3")
        L.append("1" + ls[0] + "2")
        L.append("1" + ls[0])
        L.append("1" + ls[1] + "2" + ls[0])
        L.append("1 " + ls[0] + "2" + ls[1])
    L += ["", "-", "+", "@", "~", "#", "$5", "5%", "1/2", "[1]", "{a}", "a=b", "<", "==", "*", "\\", "`a`", "1,2",
          "1,2,", "1,2,3,", ",1,", ",,", "1x2y3z4"]
    # seeded random strings over a mixed alphabet (no space outside quotes)
    alpha = "0123456789abcdefxyzneNEsSwW+-._,\"'jJ()tT"
    for _ in range(ctx.n(600, 20000)):
        n = ctx.rng.randint(1, 9)
        L.append("".join(ctx.rng.choice(alpha) for _ in range(n)))
    # random numbers / reprs
    for _ in range(ctx.n(100, 2000)):
        z = ctx.rng.randint(-10 ** ctx.rng.randint(1, 30), 10 ** ctx.rng.randint(1, 30))
        L.append(str(z))
        L.append(hex(z))
        x = ctx.rng.uniform(-1, 1) * 10.0 ** ctx.rng.randint(-30, 30)
        L.append(repr(x))
        L.append(repr(complex(x, float(z % 97))))
    seen, out = set(), []
    for s in L:
        if s not in seen:
            seen.add(s)
            out.append(s)
    return out


def check_direct(ctx, building, info, lits):
    model = model_conv(ctx, lits, CHAINS, "direct")
    nbad = 0
    metas = []
    for (c, t), m in zip([(c, t) for t in lits for c in CHAINS], [m for row in model for m in row]):
        impl, raw = canon_impl(getattr(building, fn_name(c)), t)
        ok = agree(m, impl, info["points"])
        ctx.case({"chain": c, "text": t, "impl": impl}, nontrivial=m[0] != "err", kind="direct:" + m[0])
        metas.append((c, t, m, impl))
        if not ok:
            nbad += 1
            if nbad <= 5:
                ctx.tie_broken("correspondence", "conv chain_%s vs %s" % (c, fn_name(c)),
                               "text=%r model=%r implementation=%r" % (t, m, impl))
    return nbad, metas


# --------------------------------------------------------------------------------------------- D
DIG = "0123456789"


def py_float_shape(t):
    """Python transliteration of Model.float_shape (the shape of repr of a finite float)"""
    r = t[1:] if t[:1] == "-" else t
    i = 0
    while i < len(r) and r[i] in DIG:
        i += 1
    ip, r1 = r[:i], r[i:]

    def exp_ok(x):
        return len(x) >= 3 and x[0] == "e" and x[1] in "+-" and all(c in DIG for c in x[2:])
    if not ip or not r1:
        return False
    if r1[0] == ".":
        j = 1
        while j < len(r1) and r1[j] in DIG:
            j += 1
        fp, r3 = r1[1:j], r1[j:]
        return bool(fp) and (r3 == "" or exp_ok(r3))
    return exp_ok(r1)


def float_samples(ctx):
    import struct
    xs = [0.0, -0.0, 1.0, -1.0, 0.1, 0.5, 1.5, 100000.0, 1e16, 1e15, 9999999999999998.0, 1e22, 1e23, 1e-5, 1e-4,
          0.0001, 0.00001, 123456.789, 3.141592653589793, 2.718281828459045, 1.7976931348623157e+308,
          2.2250738585072014e-308, 5e-324, 4.9406564584124654e-324, 2.5e-7, -2.5e-07, 1e100, 1e-100, 1e300,
          0.30000000000000004, 4503599627370496.0, 9007199254740993.0, 1e21, 123456789012345680.0]
    xs += [10.0 ** k for k in range(-30, 31)] + [2.0 ** k for k in range(-60, 61, 3)]
    xs += [float(k) for k in range(-20, 21)] + [k / 8.0 for k in range(-20, 21)]
    n = ctx.n(150, 4000)
    while n > 0:
        x = struct.unpack("<d", struct.pack("<Q", ctx.rng.getrandbits(64)))[0]
        if x == x and x not in (float("inf"), float("-inf")):
            xs.append(x)
            n -= 1
    for _ in range(ctx.n(80, 1500)):
        xs.append(ctx.rng.uniform(-1, 1) * 10.0 ** ctx.rng.randint(-12, 12))
    return xs


def check_float_oracle(ctx, building, info, lits):
    """validates the two premises of Props.float_roundtrip against CPython (repr_inverse, repr_shape),
    the Python transliteration of float_shape against the Coq definition, and conv on repr texts
    against the real converters"""
    xs = float_samples(ctx)
    texts, seen = [], set()
    nbad = 0
    for x in xs:
        t = repr(x)
        ok_inv = float(t).hex() == x.hex()
        ok_shape = py_float_shape(t)
        if not (ok_inv and ok_shape):
            nbad += 1
            if nbad <= 3:
                ctx.tie_broken("correspondence", "float oracle premise (repr_inverse / repr_shape)",
                               "x=%s repr=%r float(repr)==x:%s float_shape(repr):%s" % (x.hex(), t, ok_inv, ok_shape))
        if t not in seen:
            seen.add(t)
            texts.append(t)
    # transliteration of float_shape: Coq vs Python on the repr texts and on grammar literals
    probe = texts + [t for t in lits[:200] if t not in seen]
    from concurrent.futures import ThreadPoolExecutor
    chunks = [probe[i:i + 1500] for i in range(0, len(probe), 1500)]

    def fs(k):
        return coq_flat(ctx, ENC, ["map (fun t => if float_shape t then 1 else 0) [%s]"
                                   % ";\n".join(zl(t) for t in chunks[k])], "fshape_%d" % k)[0]
    with ThreadPoolExecutor(max_workers=8) as ex:
        flat = [b for r in ex.map(fs, range(len(chunks))) for b in r]
    if len(flat) != len(probe):
        raise RuntimeError("float_shape output length mismatch")
    for t, b in zip(probe, flat):
        ctx.case({"float_shape": t, "coq": b}, nontrivial=bool(b), kind="oracle:float_shape")
        if bool(b) != py_float_shape(t):
            nbad += 1
            if nbad <= 5:
                ctx.tie_broken("correspondence", "float_shape transliteration", "text=%r coq=%r python=%r"
                               % (t, bool(b), py_float_shape(t)))
    chains = CHAINS[:-1]
    model = model_conv(ctx, texts, chains, "floats")
    for t, row in zip(texts, model):
        for c, m in zip(chains, row):
            impl, _ = canon_impl(getattr(building, fn_name(c)), t)
            ctx.case({"chain": c, "repr": t, "impl": impl}, kind="oracle:float repr")
            if m != ("float", t) or not agree(m, impl, info["points"]):
                nbad += 1
                if nbad <= 5:
                    ctx.tie_broken("correspondence", "float repr through %s" % fn_name(c),
                                   "text=%r model=%r implementation=%r" % (t, m, impl))
    return nbad


# --------------------------------------------------------------------------------------------- C
DIRECT_SCRIPT = """house h

init .t.i with value {lit}
init .t.j with aa {lit} bb 7

framer f be active first f0
  frame f0
    put {lit} into .t.p
    put aa {lit} into .t.pp
    set .t.s with {lit}
    do doer param with aa {lit} cum bb {lit}
  frame f1
    bid stop all
"""

INC_SCRIPT = """house h

framer f be active first f0
  frame f0
    inc .t.n with {lit}
    inc .t.m with aa {lit}
"""

NEED_SCRIPT = """house h

framer f be active first f0
  frame f0
    go next if .t.x == {lit}
    go f1 if elapsed >= {lit}
  frame f1
    bid stop all
"""

NUM_SCRIPT = """house h

framer f be active first f0 at {lit}
  frame f0
    timeout {lit}
{rep}    go next if .t.x == 7 +- {lit}
  frame f1
    bid start f at {lit}
"""


def num_expected(v):
    """documented normalisation of a direct number n in each post-processed context (HEAD docstrings/code):
    framer `at`: Tasker period float(max(0.0, n)); bid `at`: max(0.0, n) (python max: 5 stays int, 0 and negatives
    become 0.0); timeout: float(abs(n)); repeat: int(abs(n)); need tolerance: n unchanged"""
    exp = {"framer period": float(max(0.0, v)), "bid period": max(0.0, v), "tolerance": v,
           "timeout": float(abs(v))}
    if v == v and v not in (float("inf"), float("-inf")):
        exp["repeat"] = int(abs(v))
    return exp


def num_script(lit, exp):
    return NUM_SCRIPT.format(lit=lit, rep=("    repeat %s\n" % lit) if "repeat" in exp else "")


def build_script(building, excepting, path, text):
    with open(path, "w") as f:
        f.write(text)
    b = building.Builder(fileName=path)
    try:
        ok = b.build()
    except excepting.ParseError:
        return "ParseError", None
    except ValueError:
        return "ValueError", None
    except Exception as ex:
        return type(ex).__name__, None
    return ("built" if ok else "notbuilt"), b


def acts_of(b):
    out = []
    for h in b.houses:
        for fr in h.framers:
            for frame in fr.frameNames.values():
                for attr in ("beacts", "preacts", "enacts", "renacts", "reacts", "exacts", "rexacts"):
                    for act in getattr(frame, attr, []):
                        out.append((frame.name, attr, act))
    return out


def observe_direct(b):
    """every place the literal of DIRECT_SCRIPT was stored: name -> python value"""
    obs = {}
    st = b.houses[0].store
    obs["init value"] = st.fetchShare(".t.i")["value"]
    obs["init field"] = st.fetchShare(".t.j")["aa"]
    for fname, attr, act in acts_of(b):
        cls = type(act.actor).__name__ if not isinstance(act.actor, str) else act.actor
        p = act.parms
        if cls == "PokeDirect":
            d = p["sourceData"]
            obs["put field" if "aa" in d else "put value"] = d["aa"] if "aa" in d else d["value"]
        elif cls == "GoalDirect":
            obs["set value"] = p["sourceData"]["value"]
        elif cls == "DoerParam":
            obs["do with"] = p["aa"]
            obs["do cum"] = act.inits["bb"]
    return obs


def observe_need(b):
    obs = {}
    for fname, attr, act in acts_of(b):
        for n in (act.parms or {}).get("needs", []) if hasattr(act.parms, "get") else []:
            st = n.parms.get("state")
            nm = getattr(st, "name", "")
            if nm == "t.x":
                obs["need goal"] = n.parms["goal"]
            elif nm.endswith("elapsed"):
                obs["framer need goal"] = n.parms["goal"]
    return obs


def observe_num(b):
    obs = {}
    for h in b.houses:
        for fr in h.framers:
            obs["framer period"] = fr.period
    for fname, attr, act in acts_of(b):
        p = act.parms
        if hasattr(p, "get") and "period" in p and "taskers" in p:
            obs["bid period"] = p["period"]
        for n in (p or {}).get("needs", []) if hasattr(p, "get") else []:
            nm = getattr(n.parms.get("state"), "name", "")
            if nm == "t.x":
                obs["tolerance"] = n.parms["tolerance"]
            elif nm.endswith("elapsed"):
                obs["timeout"] = n.parms["goal"]
            elif nm.endswith("recurred"):
                obs["repeat"] = n.parms["goal"]
    return obs


def model_to_python(m):
    """python value denoted by a decoded model value (uses CPython float()/complex(): modelled)"""
    import ioflo.base.globaling as g
    t = m[0]
    if t == "none":
        return None
    if t in ("bool", "int", "str", "path"):
        return m[1]
    if t == "float":
        return float(m[1])
    if t == "complex":
        return complex(m[1])
    if t == "latlon":
        x = float(m[2]) + float(m[3]) / 60.0
        return -x if m[1] else x
    if t == "point":
        return getattr(g, m[1])(*[float(x) for x in m[2]])
    raise ValueError(m)


def builder_literals(ctx, building):
    lits = ["5", "-4", "+5", "007", "1_000", "0x1f", "1e5", "fade", "bad", "FF", "12345678901234567890123",
            "1.5", "-1.5", "+.5", "5.", "1e-5", "1e+22", "0.1", "1.5e3", "inf", "nan", "-inf",
            "True", "true", "TRUE", "yes", "Yes", "No", "false", "False", "none", "None", "NONE",
            '""', '"a"', '"a b"', "''", "'a'", '"it\'s"', '\'"a"\'', '"5"', "'True'", '"1x2y"', "'to'", '" "',
            "a", "a.b", ".a.b", "a.", ".a.b.", "abc", "x", "e",
            "120N10.5", "80W30.75", "10n10.5", "1,2.5", "1s2.5", "1e2.5",
            "3x-4y", "3X-4Y", "1.5x2.y", "1,2,", "10n5e", "-5n0e", "1f2s", "1x2y3z", "30.5n10.4e4.2d", "1f-2s3b",
            "1,2,3,", "x5y",
            "junk-", "1x2", "@", "a..b", "1.5.2", "$5"]
    for _ in range(ctx.n(40, 600)):
        z = ctx.rng.randint(-10 ** 12, 10 ** 12)
        lits.append(str(z))
        lits.append(repr(ctx.rng.uniform(-1e6, 1e6)))
        k = ctx.rng.choice(["xy", "ne", "fs", "xyz", "ned", "fsb"])
        lits.append("".join("%d%s" % (ctx.rng.randint(-99, 99), c) for c in k))
    out = []
    for s in lits:
        if s in building.Reserved or "#" in s or s in out:
            continue
        out.append(s)
    return out


def check_builder(ctx, building, excepting, info, lits):
    model = model_conv(ctx, lits, ["StrBoolPathCoordPointNum", "StrBoolCoordNum", "Num"], "builder")
    nbad = 0

    def bad(where, t, m, got):
        nonlocal nbad
        nbad += 1
        if nbad <= 5:
            ctx.tie_broken("correspondence", "Builder context '%s'" % where,
                           "literal=%r model=%r builder stored %r" % (t, m, got))
    path = os.path.join(ctx.work, "c17.flo")
    for i, t in enumerate(lits):
        md, mn, mm = model[i]
        # ---- direct data contexts
        st, b = build_script(building, excepting, path, DIRECT_SCRIPT.format(lit=t))
        if md[0] == "err":
            ctx.case({"ctx": "direct", "text": t, "build": st}, nontrivial=False, kind="builder:direct-err")
            if st != "ValueError":
                bad("direct data", t, md, st)
        elif st != "built":
            ctx.case({"ctx": "direct", "text": t, "build": st}, kind="builder:direct")
            bad("direct data", t, md, st)
        else:
            obs = observe_direct(b)
            want = ["init value", "init field", "put value", "put field", "set value", "do with", "do cum"]
            for w in want:
                got = describe(obs[w]) if w in obs else ("missing",)
                ctx.case({"ctx": w, "text": t, "impl": got}, kind="builder:" + w)
                if not agree(md, got, info["points"]):
                    bad(w, t, md, got)
        # ---- inc wants numbers (anything else is a ParseError of buildInc, not of the converter)
        if md[0] in ("int", "float"):
            st, b = build_script(building, excepting, path, INC_SCRIPT.format(lit=t))
            vals = []
            if st == "built":
                for fname, attr, act in acts_of(b):
                    d = act.parms["sourceData"]
                    vals.append(d["aa"] if "aa" in d else d["value"])
            for k, w in enumerate(["inc value", "inc field"]):
                got = describe(vals[k]) if k < len(vals) else ("missing", st)
                ctx.case({"ctx": w, "text": t, "impl": got}, kind="builder:" + w)
                if not agree(md, got, info["points"]):
                    bad(w, t, md, got)
        # ---- need goals: a literal the chain refuses is parsed as an indirect goal (not compared)
        if mn[0] != "err":
            st, b = build_script(building, excepting, path, NEED_SCRIPT.format(lit=t))
            obs = observe_need(b) if st == "built" else {}
            for w in ("need goal", "framer need goal"):
                got = describe(obs[w]) if w in obs else ("missing", st)
                ctx.case({"ctx": w, "text": t, "impl": got}, kind="builder:" + w)
                if not agree(mn, got, info["points"]):
                    bad(w, t, mn, got)
        # ---- periods / tolerance: real numbers only (max(0.0, complex) is a TypeError of the caller)
        if mm[0] in ("int", "float"):
            v = model_to_python(mm)
            if v == v:  # not nan
                exp = num_expected(v)
                st, b = build_script(building, excepting, path, num_script(t, exp))
                obs = observe_num(b) if st == "built" else {}
                for w, e in exp.items():
                    got = describe(obs[w]) if w in obs else ("missing", st)
                    ctx.case({"ctx": w, "text": t, "impl": got}, kind="builder:" + w)
                    if got != describe(e):
                        bad(w, t, mm, got)
    return nbad


# --------------------------------------------------------------------------------------------- search
def property_statement(building, g, ctx=None):
    """The property's executable statement on the implementation ALONE, through EVERY converter that has the
    relevant step (features read off the converter's name).  Returns a replay dict or None."""
    LABEL = {"StrBoolPathCoordPointNum": "direct data", "StrBoolCoordNum": "need goal", "Num": "period/tolerance"}
    convs = []
    for nm in CHAINS[:-1]:
        convs.append((("%s (Convert2%s)" % (LABEL[nm], nm)) if nm in LABEL else "Convert2" + nm,
                      getattr(building, "Convert2" + nm),
                      {"quote": "Str" in nm, "bool": "Bool" in nm, "path": "Path" in nm, "latlon": "Coord" in nm,
                       "point": "Point" in nm}))
    ncase = [0]

    def call(f, s):
        ncase[0] += 1
        try:
            return f(s)
        except Exception as ex:
            return ex

    def same(a, b):
        return type(a) is type(b) and (a == b or (a != a and b != b))

    def fail(key, where, text, got, want, why):
        if ctx is not None:
            ctx.extra["implementation_only_cases"] = ncase[0]
        return {"key": key, "context": where, "literal": text, "observed": repr(got), "expected": repr(want),
                "why": why,
                "contradicts": ("correspondence B/D (the float VALUE is CPython's; Props.float_roundtrip under its oracle)"
                                if key == "c17-float-roundtrip"
                                else "C17.Props." + key.replace("c17-", "").replace("-", "_"))}

    ints = list(range(-300, 301)) + [10 ** k for k in range(3, 25)] + [-(10 ** k) - 1 for k in range(3, 25)] + \
        [0xfade, 0xbad, 255, 4095, 65535, 2 ** 63, -2 ** 64 + 3]
    floats = [0.5, -0.25, 1.5, 100.0, 1e22, 1e-5, 3.141592653589793, 1.7976931348623157e+308, 5e-324, -2.5e-7,
              0.1, 1e16, 123456.789]
    spell = [("True", True), ("False", False), ("None", None)] + \
        [(v, True) for s in ("true", "yes") for v in _case_variants(s)] + \
        [(v, False) for s in ("false", "no") for v in _case_variants(s)] + \
        [(v, None) for v in _case_variants("none")]
    alpha = "a5 x.-N"
    strs = [""] + ["".join(t) for n in (1, 2, 3) for t in itertools.product(alpha, repeat=n)] + \
        ["true", "None", "1x2y", "120N10.5", "0x1f", "1e5", "a.b.c", "it's", 'say "hi"']
    # lat/lon literals, both hemispheres, non-zero minutes; expected value computed here, independently
    latlons = []
    for deg in ("0", "7", "70", "120", "007"):
        for h in "NEne,SWsw":
            for mn in ("30.0", "56.25", "10.5", "0.75", "59.999"):
                v = float(deg) + float(mn) / 60.0
                latlons.append((deg + h + mn, -v if h in "SWsw" else v))
    seen_latlon = {}
    need_floats = {}
    doclits = doc_literals()
    for where, f, ft in convs:
        for z in ints:
            got = call(f, str(z))
            if not same(got, z):
                return fail("c17-int-roundtrip", where, str(z), got, z, "str(int) does not convert back to the int")
        # decimal before hex, hex before float; path text before numbers
        for s, want in [("10", 10), ("0x10", 16), ("1e5", 0x1e5), ("ff", "ff" if ft["path"] else 255)]:
            got = call(f, s)
            if not same(got, want):
                return fail("c17-order-doc", where, s, got, want, "documented conversion order violated")
        for x in floats:
            got = call(f, repr(x))
            if not same(got, x):
                return fail("c17-float-roundtrip", where, repr(x), got, x, "repr(float) does not convert back")
        if ft["bool"]:
            for lit, want in spell:
                got = call(f, lit)
                if not same(got, want):
                    return fail("c17-bool-none-roundtrip", where, lit, got, want, "boolean/None spelling not converted")
        elif not ft["path"]:
            for lit, _ in spell:
                got = call(f, lit)
                if not isinstance(got, ValueError):
                    return fail("c17-num-chains-refuse-spellings", where, lit, got, "ValueError",
                                "a chain without the boolean step must refuse the spelling")
        if ft["quote"]:
            for s in strs:
                for q in "\"'":
                    if q in s:
                        continue
                    got = call(f, q + s + q)
                    if not same(got, s):
                        return fail("c17-quoted-roundtrip", where, q + s + q, got, s,
                                    "quoted quote-free string does not convert back to itself")
        if ft["latlon"]:
            for lit, want in latlons:
                got = call(f, lit)
                if not same(got, want):
                    return fail("c17-latlon-roundtrip", where, lit, got, want,
                                "lat/lon literal is not sign * (deg + min/60)")
                # the same literal converts to the same value in every chain that has the lat/lon step
                if lit in seen_latlon and not same(seen_latlon[lit][1], got):
                    return fail("c17-latlon-roundtrip", where, lit, got, seen_latlon[lit][1],
                                "lat/lon literal converts differently than in " + seen_latlon[lit][0])
                seen_latlon.setdefault(lit, (where, got))
        if ft["point"]:
            rng = [-12, -1, 0, 3, 10, 250]
            for cls, ls in [("Pxy", "xy"), ("Pne", "ne"), ("Pfs", "fs"), ("Pxyz", "xyz"), ("Pned", "ned"), ("Pfsb", "fsb")]:
                for tup in itertools.product(rng, repeat=len(ls)):
                    for lets in (ls, ls.upper()):
                        lit = "".join("%d%s" % (z, c) for z, c in zip(tup, lets))
                        want = getattr(g, cls)(*[float(z) for z in tup])
                        got = call(f, lit)
                        if not (type(got) is type(want) and tuple(got) == tuple(want)
                                and all(type(x) is float for x in got)):
                            return fail("c17-point-roundtrip", where, lit, got, want,
                                        "integer-coordinate point literal does not convert to the point")
                for tup in itertools.product(["1.5", "-2.", "+3", "007.250"], repeat=len(ls)):
                    lit = "".join(c + l for c, l in zip(tup, ls))
                    want = getattr(g, cls)(*[float(c) for c in tup])
                    got = call(f, lit)
                    if not (type(got) is type(want) and tuple(got) == tuple(want)):
                        return fail("c17-point-dec-roundtrip", where, lit, got, want,
                                    "decimal-coordinate point literal does not convert to the point")
        if ft["path"]:
            for lit in ["a.b", ".a.b", "a", ".a.b.", "a_1.b2"]:
                got = call(f, lit)
                if not same(got, lit):
                    return fail("c17-order-doc", where, lit, got, lit, "path text not kept as text")
        # numeric-looking / dotted literals against the documented order written independently here
        for lit in doclits:
            want = doc_oracle(lit, ft, g)
            got = call(f, lit)
            if want is ValueError:
                ok = isinstance(got, ValueError)
            elif isinstance(want, tuple):
                ok = type(got) is type(want) and tuple(got) == tuple(want)
            else:
                ok = same(got, want)
            if not ok:
                plain_float = type(want) is float and _re.match(r"^[-+]?[0-9.]+([eE][-+]?[0-9]+)?$", lit) is not None
                key = "c17-float-roundtrip" if plain_float else "c17-order-doc"
                return fail(key, where, lit, got, "ValueError" if want is ValueError else want,
                            "not the value given by the documented conversion order "
                            "(quoted, none/bool, path text = dotted identifiers, lat/lon, points, int 10, int 16, float, complex)")
            if type(got) is float and where.startswith("need goal"):
                need_floats[lit] = got
    # a float in the need-goal chain is the same float as direct data unless it is documented path text
    direct = building.Convert2StrBoolPathCoordPointNum
    for lit, x in need_floats.items():
        if _DOC_PATH.match(lit):
            continue
        got = call(direct, lit)
        if not same(got, x):
            return fail("c17-float-roundtrip", "direct data (Convert2StrBoolPathCoordPointNum)", lit, got, x,
                        "a float literal of the need-goal context converts differently as direct data")
    if ctx is not None:
        ctx.extra["implementation_only_cases"] = ncase[0]
    return None


# ---- the DOCUMENTED conversion order, written independently of the repo's regexes (search oracle)
_ID = r"[A-Za-z_][A-Za-z0-9_]*"
_DOC_PATH = _re.compile(r"^\.?%s(?:\.%s)*\.?$" % (_ID, _ID))      # path text: identifiers joined by dots
_DOC_NUM = r"[-+]?[0-9]+(?:\.[0-9]*)?"
_DOC_POINTS = [("Pxy", "Xx", "Yy", None, True), ("Pne", "Nn", "Ee", None, False), ("Pfs", "Ff", "Ss", None, False),
               ("Pxyz", "Xx", "Yy", "Zz", False), ("Pned", "Nn", "Ee", "Dd", False), ("Pfsb", "Ff", "Ss", "Bb", False)]


def doc_oracle(text, ft, g):
    """value by the documented order: quoted, none/bool, path text, lat/lon, points, int 10, int 16, float,
    complex -- restricted to the steps the converter has (ft).  Returns the value or the ValueError class."""
    if "\n" in text:
        return ValueError
    if ft["quote"]:
        for q in "\"'":
            if len(text) >= 2 and text[0] == q and text[-1] == q and q not in text[1:-1]:
                return text[1:-1]
    if ft["bool"]:
        low = "".join(chr(ord(c) + 32) if "A" <= c <= "Z" else c for c in text)
        if low == "none":
            return None
        if low in ("true", "yes"):
            return True
        if low in ("false", "no"):
            return False
    if ft["path"] and _DOC_PATH.match(text):
        return text
    if ft["latlon"]:
        for cls, sign in (("NEne,", 1.0), ("SWsw,", -1.0)):
            m = _re.match(r"^([0-9]+)[%s]([0-9]+\.[0-9]+)$" % cls, text)
            if m:
                return sign * (float(m.group(1)) + float(m.group(2)) / 60.0)
    if ft["point"]:
        for cls, a, b, c, optfirst in _DOC_POINTS:
            pat = "^(%s)%s[%s,](%s)[%s,]" % (_DOC_NUM, "?" if optfirst else "", a, _DOC_NUM, b)
            if c:
                pat += "(%s)[%s,]" % (_DOC_NUM, c)
            m = _re.match(pat + "$", text)
            if m:
                if m.group(1) is None:
                    return ValueError          # absent optional x: float('') raises
                return getattr(g, cls)(*[float(x) for x in m.groups()])
    for conv_ in (lambda t: int(t, 10), lambda t: int(t, 16), float, complex):
        try:
            return conv_(text)
        except ValueError:
            pass
    return ValueError


def doc_literals():
    lits = [".5", "-.5", "+.5", ".5e2", ".5E-3", ".0", ".25e2", "0.5", "5.", "5.e2", "-5.", "+5.e-2", "1e-5", "1.5e+10",
            "2E5", "1e5", "1E5", "1e+5", "12.5", "-0.25", "1_0.5", ".5_0", "._5", ".e5", ".E5", ".a5", "a.5", ".5a", "a.b5.",
            "a.b", ".a.b.", "a..b", ".", "..", "5.a", "a5.b_", "_x", "x_", ".x.", "x..", "a.b.5", ".5.a", "5", "-5", "0x1f",
            "fade", "ff", ".ff", "ff.", "e5", "E5", "inf", ".inf", "nan", "1j", ".5j", "1+.5j", "1n2.5", "1n2.5e", "1x.5y",
            ".5x1y", "1,.5,", "1e2.5", "1E2.5", "1.e2.5"]
    alpha = ".5ae-+_"
    for n in range(0, 5):
        for t in itertools.product(alpha, repeat=n):
            lits.append("".join(t))
    return lits


def numeric_contexts_statement(ctx, building, excepting, g):
    """implementation ALONE through the real Builder: a direct number in every post-processed numeric context
    (framer at, bid at, timeout, repeat, tolerance) is stored as the documented normalisation of the number
    given by the documented order int 10, int 16, float (independent oracle doc_oracle + num_expected)"""
    ft = {"quote": False, "bool": False, "path": False, "latlon": False, "point": False}
    lits = ["-0.5", "-3", "-0x10", "0", "0.0", "5", "0x10", "1e-2", "2.5", "1e5", "-2.5", "+7", "007", "1_000",
            "12.0", "-1e-3", "1.5e+3", "-007", "ff", "-1e5", "0.001", "3.", "+.5", "-.5", "123456789"]
    path = os.path.join(ctx.work, "c17_search.flo")
    n = 0
    for lit in lits:
        v = doc_oracle(lit, ft, g)
        if v is ValueError or type(v) not in (int, float):
            continue
        exp = num_expected(v)
        text = num_script(lit, exp)
        st, b = build_script(building, excepting, path, text)
        obs = observe_num(b) if st == "built" else {}
        for w, e in exp.items():
            n += 1
            got = describe(obs[w]) if w in obs else ("missing", st)
            if got != describe(e):
                stmt = {"framer period": "framer f be active first f0 at %s", "bid period": "bid start f at %s",
                        "timeout": "timeout %s", "repeat": "repeat %s", "tolerance": "go next if .t.x == 7 +- %s"}[w] % lit
                ctx.extra["implementation_only_builder_cases"] = n
                return {"key": "c17-numeric-context-" + w.replace(" ", "-"), "context": w, "statement": stmt,
                        "literal": lit, "script": text, "observed": repr(obs.get(w, st)),
                        "observed_type": type(obs[w]).__name__ if w in obs else None, "expected": repr(e),
                        "expected_type": type(e).__name__,
                        "why": "stored value/type is not the documented normalisation of the literal for this context "
                               "(framer at: float(max(0.0,n)); bid at: max(0.0,n); timeout: float(abs(n)); "
                               "repeat: int(abs(n)); tolerance: n)",
                        "contradicts": "correspondence C (Builder numeric contexts) / C17.Props.hex_after_dec for the number"}
    ctx.extra["implementation_only_builder_cases"] = n
    return None


def _case_variants(s):
    return ["".join(t) for t in itertools.product(*[(c, c.upper()) for c in s])]


# ---------------------------------------------------------------------------------------------
def run(ctx):
    ctx.rule = ("A: every hand matcher (11 regexes, int base 10/16, float, complex) vs Python re/int/float/complex on "
                "ALL strings up to length 5-8 over a small per-matcher alphabet (non-trivial = accepted by either); "
                "B: each of the 11 converter functions called on a literal grammar (numbers, signs, exponents, hex, "
                "underscores, booleans in mixed case, None, quotes, paths, lat/lon, six point kinds x integer/decimal/"
                "missing coordinates x separator styles, junk, seeded random strings and reprs) vs conv over the "
                "GENERATED chain (non-trivial = converts to a value); C: literals through the real Builder in every "
                "literal context, stored value and type vs the model; distinct by (context, text)")
    ctx.assumptions = [
        "token alphabet: printable ASCII 32..126; space only inside quoted tokens (FloScript chunks are either fully "
        "quoted or contain no space/quote); no newline (so `$` = end of text); no non-ASCII digits/letters",
        "float(text)/complex(text) VALUES are CPython's (modelled, not verified): the model recognises the text "
        "grammar and returns the text; points and lat/lon return captured group texts; the harness applies "
        "CPython float() to them when comparing",
        "float oracle (premises of Props.float_roundtrip, validated on sampled doubles in phase D): "
        "float(repr(x)) == x and repr(x) has Model.float_shape for every finite double x",
        "CPython >= 3.11 refuses int(text, 10) for more than 4300 digits (sys.get_int_max_str_digits); the model's "
        "int is unbounded, so int_roundtrip speaks about literals below that limit",
    ]
    info = gen(ctx)
    if info is None:
        ctx.settle(lambda: search(ctx))
        return
    ctx.coq_build("C17/Props.v")

    from ioflo.aid.consoling import getConsole
    getConsole().reinit(verbosity=0)
    from ioflo.base import building, excepting
    import ioflo.base.globaling as g

    lits = literal_grammar(ctx)
    phases = [("matchers", lambda: check_matchers(ctx, g)),
              ("direct", lambda: check_direct(ctx, building, info, lits)[0]),
              ("builder", lambda: check_builder(ctx, building, excepting, info, builder_literals(ctx, building))),
              ("float_oracle", lambda: check_float_oracle(ctx, building, info, lits))]
    mism, secs = {}, {}
    for name, fn in phases:
        t0 = time.time()
        try:
            mism[name] = fn()
        except Exception as ex:  # a phase that cannot run is a broken tie with a readable reason, never silence
            mism[name] = "not run"
            ctx.tie_broken("harness", "phase %s could not run" % name, ("%s: %s" % (type(ex).__name__, ex))[:1500])
        secs[name] = round(time.time() - t0, 1)
    ctx.extra["mismatches"] = mism
    ctx.extra["phase_seconds"] = secs
    ctx.exhaustive = False
    ctx.settle(lambda: search(ctx))


def search(ctx):
    from ioflo.aid.consoling import getConsole
    getConsole().reinit(verbosity=0)
    from ioflo.base import building
    import ioflo.base.globaling as g
    found = property_statement(building, g, ctx)
    if not found:
        from ioflo.base import excepting
        found = numeric_contexts_statement(ctx, building, excepting, g)
        ctx.evaluations += ctx.extra.get("implementation_only_builder_cases", 0)
    ctx.evaluations += ctx.extra.get("implementation_only_cases", 0)
    ctx.distribution["implementation-only statement"] = ctx.extra.get("implementation_only_cases", 0)
    return found
