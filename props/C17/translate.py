"""
C17 translator (tie T, fail-closed).

Reads ioflo/base/building.py and ioflo/base/globaling.py with `ast` and emits coq/gen/C17_Chain.v:

  * gen_sources      : the SOURCE text of every REO_* regex used by a Convert2* function / StripQuotes
                       (the hand matchers of coq/C17/Model.v were written for `expected_sources`;
                       Props.regex_sources_ok fails the build when they differ)
  * gen_points       : namedtuple field lists of the point classes that the converters build
  * chain_<F>        : for every Convert2<F> function the ORDER of its conversion steps, each step
                       recognised by its exact AST shape; a trailing `try: return G(text) except
                       ValueError: raise ValueError(..)` becomes `++ chain_<G>`
  * gen_ctx_table    : which converters every Builder method calls directly, and which Builder
                       methods call parseDirect / parseNeedGoal / parseFramerNeedGoal / parseTolerance

Anything that is not one of the recognised shapes raises TranslateError.
"""
import ast
import os


class TranslateError(Exception):
    pass


def fail(node, why):
    raise TranslateError("line %s: %s: %s" % (getattr(node, "lineno", "?"), why,
                                              ast.dump(node)[:300] if isinstance(node, ast.AST) else node))


CONVERTERS = ["Convert2Num", "Convert2CoordNum", "Convert2BoolCoordNum", "Convert2StrBoolCoordNum",
              "Convert2PointNum", "Convert2CoordPointNum", "Convert2BoolCoordPointNum",
              "Convert2PathCoordPointNum", "Convert2BoolPathCoordPointNum",
              "Convert2StrBoolPathCoordPointNum", "StripQuotes"]
PARSERS = ["parseDirect", "parseNeedGoal", "parseFramerNeedGoal", "parseTolerance"]
POINT_CLASSES = ["Pxy", "Pne", "Pfs", "Pxyz", "Pned", "Pfsb"]


def zlist(s):
    for c in s:
        if ord(c) > 126 or ord(c) < 32:
            raise TranslateError("non printable-ASCII character in extracted text %r" % s)
    return "[" + "; ".join(str(ord(c)) for c in s) + "]"


# ---------------------------------------------------------------- AST shape helpers

def is_name(n, ident=None):
    return isinstance(n, ast.Name) and (ident is None or n.id == ident)


def is_const(n, value=None):
    return isinstance(n, ast.Constant) and (value is None or (n.value == value and type(n.value) is type(value)))


def call_of(n, fname, nargs):
    """n is `fname(a1..an)` with a bare-name callee, positional args only"""
    return (isinstance(n, ast.Call) and is_name(n.func, fname) and len(n.args) == nargs and not n.keywords)


def method_call(n, objtest, meth, nargs):
    return (isinstance(n, ast.Call) and isinstance(n.func, ast.Attribute) and n.func.attr == meth
            and objtest(n.func.value) and len(n.args) == nargs and not n.keywords)


def is_text(n):
    return is_name(n, "text")


def is_valueerror_pass_handler(h):
    return (isinstance(h, ast.ExceptHandler) and is_name(h.type, "ValueError")
            and len(h.body) == 1 and isinstance(h.body[0], ast.Pass))


def is_raise_valueerror(st):
    """raise ValueError("....{0}".format(text))"""
    if not (isinstance(st, ast.Raise) and st.cause is None and call_of(st.exc, "ValueError", 1)):
        return False
    a = st.exc.args[0]
    return method_call(a, lambda o: is_const(o) and isinstance(o.value, str), "format", 1) and is_text(a.args[0])


def lower_text(n):
    return method_call(n, is_text, "lower", 0)


def regex_call(n, meth):
    """REO_X.<meth>(text) -> 'REO_X' or None"""
    if method_call(n, lambda o: is_name(o) and o.id.startswith("REO_"), meth, 1) and is_text(n.args[0]):
        return n.func.value.id
    return None


def float_of(n, inner_test):
    return call_of(n, "float", 1) and inner_test(n.args[0])


def sub(n, base_test, idx):
    return (isinstance(n, ast.Subscript) and base_test(n.value) and is_const(n.slice, idx))


# ---------------------------------------------------------------- step recognisers
# each returns (coq_step_text, n_statements_consumed) or None

def rec_try_number(body, i):
    st = body[i]
    if not (isinstance(st, ast.Try) and len(st.body) == 2 and len(st.handlers) == 1
            and not st.orelse and not st.finalbody and is_valueerror_pass_handler(st.handlers[0])):
        return None
    a, r = st.body
    if not (isinstance(a, ast.Assign) and len(a.targets) == 1 and is_name(a.targets[0], "value")
            and isinstance(r, ast.Return) and is_name(r.value, "value")):
        return None
    c = a.value
    if call_of(c, "int", 2) and is_text(c.args[0]) and is_const(c.args[1]) and c.args[1].value in (10, 16) \
            and type(c.args[1].value) is int:
        return "StInt %d" % c.args[1].value, 1
    if call_of(c, "float", 1) and is_text(c.args[0]):
        return "StFloat", 1
    if call_of(c, "complex", 1) and is_text(c.args[0]):
        return "StComplex", 1
    return None


def rec_latlon(body, i):
    if i + 1 >= len(body):
        return None
    a, f = body[i], body[i + 1]
    if not (isinstance(a, ast.Assign) and len(a.targets) == 1 and is_name(a.targets[0], "dm")):
        return None
    rx = regex_call(a.value, "findall")
    if rx is None:
        return None
    if not (isinstance(f, ast.If) and is_name(f.test, "dm") and not f.orelse and len(f.body) == 3):
        fail(f, "unrecognised lat/lon step")
    d, m, r = f.body
    dm0 = lambda n: sub(n, lambda b: is_name(b, "dm"), 0)
    ok = (isinstance(d, ast.Assign) and is_name(d.targets[0], "deg") and float_of(d.value, lambda n: sub(n, dm0, 0))
          and isinstance(m, ast.Assign) and is_name(m.targets[0], "min_") and float_of(m.value, lambda n: sub(n, dm0, 1))
          and isinstance(r, ast.Return))
    if not ok:
        fail(f, "unrecognised lat/lon body")

    def fracdeg(n):  # deg + min_/60.0
        return (isinstance(n, ast.BinOp) and isinstance(n.op, ast.Add) and is_name(n.left, "deg")
                and isinstance(n.right, ast.BinOp) and isinstance(n.right.op, ast.Div)
                and is_name(n.right.left, "min_") and is_const(n.right.right, 60.0))
    v = r.value
    if fracdeg(v):
        neg = "false"
    elif isinstance(v, ast.UnaryOp) and isinstance(v.op, ast.USub) and fracdeg(v.operand):
        neg = "true"
    else:
        fail(r, "unrecognised lat/lon value expression")
    return "StFindLatLon %s %s" % (rx, neg), 2


def rec_point(body, i):
    if i + 1 >= len(body):
        return None
    a, f = body[i], body[i + 1]
    if not (isinstance(a, ast.Assign) and len(a.targets) == 1 and is_name(a.targets[0], "match")):
        return None
    rx = regex_call(a.value, "findall")
    if rx is None:
        return None
    if not (isinstance(f, ast.If) and is_name(f.test, "match") and not f.orelse and len(f.body) == 2):
        fail(f, "unrecognised point step")
    u, r = f.body
    if not (isinstance(u, ast.Assign) and len(u.targets) == 1 and isinstance(u.targets[0], ast.Tuple)
            and all(is_name(e) for e in u.targets[0].elts)
            and sub(u.value, lambda b: is_name(b, "match"), 0)):
        fail(u, "unrecognised point unpacking")
    names = [e.id for e in u.targets[0].elts]
    c = r.value if isinstance(r, ast.Return) else None
    if not (isinstance(c, ast.Call) and is_name(c.func) and c.func.id in POINT_CLASSES and not c.args
            and [k.arg for k in c.keywords] == names
            and all(float_of(k.value, lambda n, nm=k.arg: is_name(n, nm)) for k in c.keywords)):
        fail(r, "unrecognised point constructor")
    return "StFindPoint %s %s" % (rx, c.func.id), 2


def rec_lower(body, i):
    st = body[i]
    if not (isinstance(st, ast.If) and not st.orelse and len(st.body) == 1 and isinstance(st.body[0], ast.Return)
            and isinstance(st.test, ast.Compare) and len(st.test.ops) == 1 and lower_text(st.test.left)):
        return None
    op, rhs, ret = st.test.ops[0], st.test.comparators[0], st.body[0].value
    if isinstance(op, ast.Eq) and is_const(rhs) and isinstance(rhs.value, str):
        lits = [rhs.value]
    elif isinstance(op, ast.In) and isinstance(rhs, ast.List) and all(is_const(e) and isinstance(e.value, str) for e in rhs.elts):
        lits = [e.value for e in rhs.elts]
    else:
        fail(st, "unrecognised text.lower() test")
    if is_const(ret) and ret.value is None:
        val = "VNone"
    elif is_const(ret) and ret.value is True:
        val = "(VBool true)"
    elif is_const(ret) and ret.value is False:
        val = "(VBool false)"
    else:
        fail(st, "unrecognised literal value")
    return "StLowerIn [%s] %s" % ("; ".join(zlist(s) for s in lits), val), 1


def rec_match(body, i):
    st = body[i]
    if not (isinstance(st, ast.If) and not st.orelse and len(st.body) == 1 and isinstance(st.body[0], ast.Return)):
        return None
    rx = regex_call(st.test, "match")
    if rx is None:
        return None
    ret = st.body[0].value
    if is_text(ret):
        return "StMatchText %s" % rx, 1
    if method_call(ret, is_text, "strip", 1) and is_const(ret.args[0]) and isinstance(ret.args[0].value, str) \
            and len(ret.args[0].value) == 1:
        return "StMatchStrip %s %d" % (rx, ord(ret.args[0].value)), 1
    fail(st, "unrecognised regex-match step")


def rec_tail_call(body, i):
    """try: return (G(text)) except ValueError: raise ValueError(...)   [+ unreachable `return None`]"""
    st = body[i]
    if not (isinstance(st, ast.Try) and len(st.body) == 1 and isinstance(st.body[0], ast.Return)
            and len(st.handlers) == 1 and not st.orelse and not st.finalbody):
        return None
    c = st.body[0].value
    h = st.handlers[0]
    if not (isinstance(c, ast.Call) and is_name(c.func) and c.func.id in CONVERTERS and len(c.args) == 1
            and is_text(c.args[0]) and not c.keywords):
        return None
    if not (is_name(h.type, "ValueError") and h.name is None and len(h.body) == 1 and is_raise_valueerror(h.body[0])):
        fail(st, "tail call handler is not `except ValueError: raise ValueError(...)`")
    rest = body[i + 1:]
    if rest and not (len(rest) == 1 and isinstance(rest[0], ast.Return) and is_const(rest[0].value)
                     and rest[0].value.value is None):
        fail(rest[0], "statements after the tail call")
    return ("CALL", c.func.id), len(body) - i


RECOGNISERS = [rec_try_number, rec_latlon, rec_point, rec_lower, rec_match, rec_tail_call]


def translate_function(fn):
    body = list(fn.body)
    if body and isinstance(body[0], ast.Expr) and is_const(body[0].value) and isinstance(body[0].value.value, str):
        body = body[1:]
    if not (len(fn.args.args) == 1 and fn.args.args[0].arg == "text" and not fn.args.vararg and not fn.args.kwarg
            and not fn.args.defaults and not fn.args.kwonlyargs and not fn.decorator_list):
        fail(fn, "unexpected signature")
    steps, tail, i = [], None, 0
    while i < len(body):
        st = body[i]
        if i == len(body) - 1 and is_raise_valueerror(st):
            tail = "ERR"
            i += 1
            break
        if i == len(body) - 1 and isinstance(st, ast.Return) and is_text(st.value):
            steps.append("StAsIs")
            tail = "ERR"  # never reached: StAsIs always answers
            i += 1
            break
        for rec in RECOGNISERS:
            got = rec(body, i)
            if got:
                break
        else:
            fail(st, "unrecognised statement in %s" % fn.name)
        what, used = got
        if isinstance(what, tuple):
            tail = what[1]
        else:
            steps.append(what)
        i += used
    if tail is None:
        fail(fn, "function %s can fall off its end" % fn.name)
    return steps, tail


# ---------------------------------------------------------------- whole-file extraction

def calls_in(fn):
    out = []
    for n in ast.walk(fn):
        if isinstance(n, ast.Call):
            if is_name(n.func) and n.func.id in CONVERTERS and n.func.id not in out:
                out.append(n.func.id)
            if isinstance(n.func, ast.Attribute) and is_name(n.func.value, "self") and n.func.attr in PARSERS \
                    and n.func.attr not in out:
                out.append(n.func.attr)
    return out


def translate(repo):
    bpath = os.path.join(repo, "ioflo", "base", "building.py")
    gpath = os.path.join(repo, "ioflo", "base", "globaling.py")
    btree = ast.parse(open(bpath).read(), bpath)
    gtree = ast.parse(open(gpath).read(), gpath)

    # --- regex sources and point classes from globaling.py (module level, last assignment wins)
    sources, points = {}, {}
    for st in gtree.body:
        if isinstance(st, ast.Assign) and len(st.targets) == 1 and is_name(st.targets[0]):
            nm, v = st.targets[0].id, st.value
            if nm.startswith("REO_"):
                if not (isinstance(v, ast.Call) and isinstance(v.func, ast.Attribute) and v.func.attr == "compile"
                        and is_name(v.func.value, "re") and len(v.args) == 1 and not v.keywords
                        and is_const(v.args[0]) and isinstance(v.args[0].value, str)):
                    fail(st, "regex %s is not re.compile(<literal>) without flags" % nm)
                sources[nm] = v.args[0].value
            if nm in POINT_CLASSES:
                if not (call_of(v, "namedtuple", 2) and is_const(v.args[0], nm) and is_const(v.args[1])
                        and isinstance(v.args[1].value, str)):
                    fail(st, "point class %s is not namedtuple(name, 'fields')" % nm)
                points[nm] = v.args[1].value.split()
    # building.py must not rebind them
    for n in ast.walk(btree):
        if isinstance(n, (ast.Assign, ast.AugAssign, ast.AnnAssign)):
            tg = n.targets if isinstance(n, ast.Assign) else [n.target]
            for t in tg:
                for e in ast.walk(t):
                    if is_name(e) and (e.id.startswith("REO_") or e.id in POINT_CLASSES or e.id in CONVERTERS
                                       or e.id in ("int", "float", "complex")):
                        fail(n, "building.py rebinds %s" % e.id)

    # --- converters
    fns = {}
    for st in btree.body:
        if isinstance(st, ast.FunctionDef) and (st.name in CONVERTERS or st.name.startswith("Convert2")):
            if st.name in fns:
                fail(st, "duplicate definition of %s" % st.name)
            if st.name not in CONVERTERS:
                fail(st, "unknown converter %s" % st.name)
            fns[st.name] = translate_function(st)
    missing = [c for c in CONVERTERS if c not in fns]
    if missing:
        raise TranslateError("converters not found: %s" % missing)

    used_rx = []
    for name in CONVERTERS:
        for s in fns[name][0]:
            for w in s.split():
                if w.startswith("REO_") and w not in used_rx:
                    used_rx.append(w)
    used_rx.sort()
    for rx in used_rx:
        if rx not in sources:
            raise TranslateError("regex %s used but not defined in globaling.py" % rx)

    # --- call-site table: every function/method of building.py that calls a converter or a parser
    table = []
    for st in btree.body:
        if isinstance(st, ast.ClassDef):
            for m in st.body:
                if isinstance(m, ast.FunctionDef):
                    c = calls_in(m)
                    if c:
                        table.append(("%s.%s" % (st.name, m.name), c))
        elif isinstance(st, ast.FunctionDef) and st.name not in CONVERTERS:
            c = calls_in(st)
            if c:
                table.append((st.name, c))
        elif not isinstance(st, ast.FunctionDef):
            for n in ast.walk(st):
                if isinstance(n, ast.Call) and is_name(n.func) and n.func.id in CONVERTERS:
                    fail(n, "converter called at module level")

    # --- order the chains so that callees come first
    order, seen = [], set()

    def visit(nm, stack=()):
        if nm in stack:
            raise TranslateError("recursive converter chain through %s" % nm)
        if nm in seen:
            return
        tail = fns[nm][1]
        if tail != "ERR":
            visit(tail, stack + (nm,))
        seen.add(nm)
        order.append(nm)
    for nm in CONVERTERS:
        visit(nm)

    L = []
    L.append("(* GENERATED by props/C17/translate.py from ioflo/base/building.py and ioflo/base/globaling.py.")
    L.append("   Do not edit. *)")
    L.append("From Coq Require Import List ZArith String.")
    L.append("Import ListNotations.")
    L.append("Require Import V.C17.Model.")
    L.append("Open Scope Z_scope.")
    L.append("")
    L.append("Definition gen_sources : list (rx * list Z) := [")
    L.append(";\n".join("  (%s, %s)" % (rx, zlist(sources[rx])) for rx in used_rx))
    L.append("].")
    L.append("")
    L.append("Definition gen_points : list (pkind * list (list Z)) := [")
    L.append(";\n".join("  (%s, [%s])" % (p, "; ".join(zlist(f) for f in points[p])) for p in POINT_CLASSES
                        if p in points))
    L.append("].")
    L.append("")
    for nm in order:
        steps, tail = fns[nm]
        short = nm.replace("Convert2", "")
        body = "[" + ";\n    ".join(steps) + "]"
        if tail != "ERR":
            body += "\n    ++ chain_%s" % tail.replace("Convert2", "")
        L.append("Definition chain_%s : list step :=\n    %s." % (short, body))
        L.append("")
    L.append("Definition chain_of (c : cid) : list step :=\n  match c with")
    for nm in CONVERTERS:
        short = nm.replace("Convert2", "")
        L.append("  | C%s => chain_%s" % (short, short))
    L.append("  end.")
    L.append("")
    L.append("Definition gen_ctx_table : list (string * list callee) := [")
    rows = []
    for who, cs in table:
        items = []
        for c in cs:
            if c in CONVERTERS:
                items.append("Conv C%s" % c.replace("Convert2", ""))
            else:
                items.append("Parser \"%s\"" % c)
        rows.append("  (\"%s\"%%string, [%s])" % (who, "; ".join(items)))
    L.append(";\n".join(rows))
    L.append("].")
    L.append("")
    info = {"sources": {rx: sources[rx] for rx in used_rx}, "points": points,
            "chains": {nm: fns[nm] for nm in CONVERTERS}, "table": table}
    return "\n".join(L), info


if __name__ == "__main__":
    import sys
    text, info = translate(sys.argv[1] if len(sys.argv) > 1 else "/repo")
    print(text)
