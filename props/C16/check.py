"""
C16 -- script layout does not change what is built.

Tie T : props/C16/translate.py extracts Reserved, the 'load' word, the continuation suffix, the
        comment character, the join separator, the chunk regex source and HOW THE LAST LINE OF A
        BACKSLASH RUN IS STRIPPED from the AST of building.py/globaling.py -> coq/gen/C16_Tables.v
Tie H : coq/C16/Model.v  (tokenize, chunk scanner, backslash runs, connective look-ahead, layout
        grammar + render);  theorems in coq/C16/Props.v.
Correspondence (real Builder):
  A  Builder.tokenize on every string over a small alphabet       vs  model finish/runs
  B  Builder.build loop (dispatch recorded) on raw multi-line files vs  model commands
  C  random layouts (grammar) of generated commands: python render = Coq render, recorded
     dispatch = model commands = the document's commands
  D  example plans: raw (recorded dispatch = model commands) and re-laid-out
     (recorded dispatch and BUILT HOUSE identical to the canonical layout's)
"""
import glob
import itertools
import json
import os
import sys

HERE = os.path.dirname(os.path.abspath(__file__))
sys.path.insert(0, HERE)
import translate  # noqa: E402
import layout as L  # noqa: E402

LEVEL = "proof"

HEADER = """From Coq Require Import String.
From Coq Require Import List ZArith Bool.
Import ListNotations.
Require Import V.gen.C16_Tables V.Lib.C16_Str V.C16.Model.
Open Scope Z_scope.
Fixpoint leqb {A} (e : A -> A -> bool) (a b : list A) : bool :=
  match a, b with [], [] => true | x :: a', y :: b' => e x y && leqb e a' b' | _, _ => false end.
Definition cmds_eqb := leqb (leqb (leqb Z.eqb)).
Definition pl_eqb (a b : pline) := leqb Z.eqb (txt a) (txt b) && Bool.eqb (nl a) (nl b).
Definition SENT : list (list (list Z)) := [[[ -1 ]]].
Definition viaDoc (d : ldoc) (py : list pline) : list (list (list Z)) :=
  if doc_ok d && leqb pl_eqb (render d) py then commands (render d) else SENT.
"""

SHAPES = ["frame a", "  go b", " to c \\", "of d", "# c", "", "   ", "x \\", "\\", "put \"q r\" \\",
          "in 'e' # t", "load f", "\tto g", "if h \\ ", "#c \\", "do \"un closed"]

WORDS = ["frame", "put", "go", "do", "load", "lo", "to", "of", "with", "into", "if", "x", "a.b", "5",
         "\"q s\"", "'t'", "\"#h\"", "a#b", "==", "+-", "me", "\"it's\"", "b\\c"]

_FAILS = []     # inputs on which the implementation ALONE breaks the property statement


def gen(ctx):
    tables = translate.extract(ctx.repo)
    ctx.write_gen("C16_Tables.v", translate.render(tables))
    return tables


def file_text(lines, last_nl=True):
    return "\n".join(lines) + ("\n" if last_nl and lines else "")


def run(ctx):
    import flolib
    ctx.rule = ("A: Builder.tokenize on every string over {a,space,dquote,squote,#,backslash[,tab]} up to a "
                "length; B: the real build loop with dispatch recorded on every file of <=3 lines over 16 line "
                "shapes + random longer files (incl. unterminated last line); C: random grammar layouts of "
                "random commands (python render = Coq render, recorded dispatch = model = document); D: the "
                "example plans raw and under random layouts, recorded dispatch AND built house compared with "
                "the canonical layout. non-trivial = more than one physical line or a quote/comment/backslash")
    ctx.assumptions = [
        "one file at a time: 'load' switching files is not modelled (load lines are ordinary commands here)",
        "ASCII scripts; text-mode universal newlines are not modelled (no CR in the generated files)",
        "dispatch (the per-verb parsers) is a function of the token list and builder state: identical command "
        "sequences build identical houses; checked, not proved, by the built-house comparison in D",
        "the run trace is not compared (the built house, incl. every act's parameters, is)",
    ]
    try:
        tables = gen(ctx)
    except translate.Untranslatable as ex:
        ctx.tie_broken("translator", "props/C16/translate.py", str(ex))
        ctx.obligations += 1
        ctx.settle(lambda: search(ctx))
        return
    reserved, load_word = tables["reserved"], tables["load_word"]
    # continuation lines are generated for every documented connective and every connective literal the
    # parsers test, not only for the extracted Reserved list (which is what the model's rule uses)
    split_words = list(dict.fromkeys(list(reserved) + translate.DOCUMENTED))
    missing = [w for w in tables["parser_connectives"] if w in translate.DOCUMENTED and w not in reserved]
    ctx.extra["parser_connectives"] = tables["parser_connectives"]
    if missing:
        ctx.tie_broken("static", "connective literals tested by the parsers but not in Reserved", repr(missing))
    ctx.extra["tables"] = {"reserved": reserved, "load_word": load_word, "last_mode": tables["last_mode"]}
    ctx.coq_build("C16/Props.v")

    cases, metas = [], []

    # ---- A: tokenize, exhaustive small scope ------------------------------------------------
    plans = [("a \"'#\\", ctx.n(4, 6)), ("a \"'#\\\t", ctx.n(4, 5))]
    seen = set()
    for alpha, n in plans:
        for ln in range(n + 1):
            for tup in itertools.product(alpha, repeat=ln):
                s = "".join(tup)
                if s in seen:
                    continue
                seen.add(s)
                got = flolib.tokenize_line(s + "\n")
                ctx.case({"A": s, "tokens": got}, nontrivial=len(got) > 0 or "#" in s, kind="A:tokenize")
                cases.append(("map finish (runs %s)" % L.c_lines([s]), L.c_cmds([got])))
                metas.append(("A", s, got))

    # ---- B: the build loop on raw files -----------------------------------------------------
    def add_raw(lines, last_nl=True, kind="B:raw", mem=False):
        txt = file_text(lines, last_nl)
        rec = flolib.record_commands_mem(txt) if mem else flolib.record_commands(ctx.work, txt)
        ctx.case({"file": txt, "commands": rec}, nontrivial=len(lines) > 1, kind=kind)
        cases.append(("commands %s" % L.c_lines(lines, last_nl), L.c_cmds(rec)))
        metas.append((kind, txt, rec))
        return rec

    for n in (1, 2, 3):
        for combo in itertools.product(SHAPES, repeat=n):
            if n == 3 and not ctx.thorough and ctx.rng.random() < 0.7:
                continue
            add_raw(list(combo), mem=(n == 3))      # 3-line files through an in-memory file double
            if ctx.rng.random() < 0.15:
                add_raw(list(combo), last_nl=False, mem=(n == 3))
    for _ in range(ctx.n(300, 3000)):
        lines = []
        for _ in range(ctx.rng.randint(3, 10)):
            x = ctx.rng.random()
            if x < 0.4:
                lines.append(ctx.rng.choice(SHAPES))
            else:
                ws = ctx.rng.choice(["", " ", "   ", "\t", " \t "])
                ln = ws + (ctx.rng.choice([" ", "  ", " \t"]).join(ctx.rng.choice(WORDS)
                                                                  for _ in range(ctx.rng.randint(1, 5))))
                ln += ctx.rng.choice(["", "", " ", " \\", "\\", " # c", " #c \\", " \\ "])
                lines.append(ln)
        add_raw(lines, last_nl=ctx.rng.random() < 0.85, mem=(ctx.rng.random() < 0.7))

    # ---- C: grammar layouts of random commands ----------------------------------------------
    def add_doc(cmd_toks, lay, kind, coq_doc=True):
        doc = lay.document(cmd_toks, pc=ctx.rng.choice([0.2, 0.6, 1.0]), pb=ctx.rng.choice([0.0, 0.2, 0.5]))
        # the Coq document form needs every continuation segment to start with an EXTRACTED reserved word
        if any(L.seg_toks(sg)[0] not in reserved for c in doc[0] for _fl, sg in c[2]):
            coq_doc = False
        lines = L.render(doc)
        txt = file_text(lines)
        rec = flolib.record_commands(ctx.work, txt)
        want = L.doc_cmds(doc)
        ctx.case({"file": txt, "commands": rec}, nontrivial=len(lines) > len(cmd_toks), kind=kind)
        if coq_doc:
            cases.append(("viaDoc %s %s" % (L.c_doc(doc), L.c_lines(lines)), L.c_cmds(rec)))
        else:       # big plans: the Coq side checks the rendered lines only (render itself is checked in C)
            cases.append(("commands %s" % L.c_lines(lines), L.c_cmds(rec)))
        metas.append((kind, txt, rec))
        if rec != want:          # the implementation alone breaks the property statement
            _FAILS.append({"script": txt, "canonical_script": file_text(L.render(L.canonical(cmd_toks))),
                           "observed_commands": rec, "expected_commands": want})
        return txt

    heads = [w for w in WORDS if w not in split_words and L.classify(w)]
    okwords = [w for w in WORDS if L.classify(w)] + [w for w in split_words if L.classify(w)]
    for i in range(ctx.n(250, 2500)):
        cmds = []
        for _ in range(ctx.rng.randint(1, 5)):
            c = [ctx.rng.choice(heads)] + [ctx.rng.choice(okwords) for _ in range(ctx.rng.randint(0, 7))]
            cmds.append([L.classify(w) for w in c])
        lay = L.Layouter(ctx.rng, split_words, load_word, tabs=(i % 3 != 0), wild=(i % 2 == 0))
        add_doc(cmds, lay, "C:layout")

    # ---- D: example plans -------------------------------------------------------------------
    plans_dir = os.path.join(ctx.repo, "ioflo", "app", "plan")
    nplans = nbuilt = 0
    for path in sorted(glob.glob(os.path.join(plans_dir, "*.flo"))):
        raw = open(path).read()
        if "\r" in raw or any(ord(c) > 126 for c in raw):
            continue
        lines = raw.split("\n")
        last_nl = raw.endswith("\n")
        if last_nl:
            lines = lines[:-1]
        rec = add_raw(lines, last_nl, kind="D:plan-raw")
        nplans += 1
        toks = L.classify_cmds(rec, set(split_words))
        if toks is None:
            continue
        canon_txt = file_text(L.render(L.canonical(toks)))
        # keep load commands from pulling in other files: build only plans without load
        buildable = not any(c[0] in load_word for c in rec)
        base = flolib.build_text(ctx.work, canon_txt) if buildable else None
        if buildable:
            # dispatch is a function of the command list: the same house without any file / layout
            donly = flolib.build_from_commands(rec)
            same = json.dumps(donly, sort_keys=True) == json.dumps(base, sort_keys=True)
            ctx.case({"plan": os.path.basename(path), "dispatch_only": donly[0], "same": same},
                     nontrivial=True, kind="D:dispatch-only-%s" % donly[0])
            if not same:
                ctx.tie_broken("correspondence", "house built by dispatch alone differs from the file build",
                               "plan=%s" % os.path.basename(path))
        for j in range(ctx.n(2, 10)):
            lay = L.Layouter(ctx.rng, split_words, load_word, tabs=(j % 2 == 0), wild=(j % 3 == 0))
            txt = add_doc(toks, lay, "D:plan-layout", coq_doc=(len(rec) <= 40 and j == 0))
            if buildable:
                got = flolib.build_text(ctx.work, txt)
                nbuilt += 1
                same = json.dumps(got, sort_keys=True) == json.dumps(base, sort_keys=True)
                ctx.case({"plan": os.path.basename(path), "layout": j, "built": got[0], "same": same},
                         nontrivial=True, kind="D:plan-built-%s" % got[0])
                if not same:
                    _FAILS.append({"script": txt, "canonical_script": canon_txt,
                                   "observed_build": got[0], "expected_build": base[0],
                                   "why": "built house differs from the canonical layout's"})
                if not same and sum(1 for b in ctx.broken if b[0] == "correspondence") < 3:
                    ctx.tie_broken("correspondence", "built house differs under a grammar layout",
                                   "plan=%s layout script:\n%s" % (os.path.basename(path), txt[:600]))
    ctx.extra["plans"] = nplans

    # ---- E: the load verb over several files ------------------------------------------------
    lcases, lmetas = [], []
    names = ["a.flo", "b.flo", "c.flo"]
    for i in range(ctx.n(60, 600)):
        lay = L.Layouter(ctx.rng, reserved, load_word, tabs=(i % 2 == 0), wild=(i % 3 == 0))
        present = [n for n in names if ctx.rng.random() < 0.85]

        def cmds_for(level):
            out = []
            for _ in range(ctx.rng.randint(1, 4)):
                x = ctx.rng.random()
                later = names[level:]
                if x < 0.35 and later:
                    out.append(["load", ctx.rng.choice(later)])
                elif x < 0.40:
                    out.append(ctx.rng.choice([["load"], ["load", "a.flo", "extra"], ["lo", "x"]]))
                else:
                    out.append([ctx.rng.choice(heads)] + [ctx.rng.choice(okwords) for _ in range(ctx.rng.randint(0, 4))])
            return out
        docs, docs_d = {}, {}
        for lvl, nm in enumerate(names):
            if nm in present:
                docs_d[nm] = lay.document([[L.classify(w) for w in c] for c in cmds_for(lvl + 1)])
                docs[nm] = L.render(docs_d[nm])
        root_d = lay.document([[L.classify(w) for w in c] for c in cmds_for(0)])
        rootlines = L.render(root_d)
        files = {nm: file_text(ls) for nm, ls in docs.items()}
        files["root.flo"] = file_text(rootlines)
        for nm in names:            # a file of an earlier case must not linger
            pth = os.path.join(ctx.work, nm)
            if nm not in files and os.path.exists(pth):
                os.remove(pth)
        rec, ok = flolib.record_stream(ctx.work, files, "root.flo")
        want = expand_py({nm: L.doc_cmds(dd) for nm, dd in docs_d.items()}, L.doc_cmds(root_d))
        if (rec, ok) != want:
            _FAILS.append({"files": files, "script": files["root.flo"], "observed_commands": rec,
                           "expected_commands": want[0], "why": "load stream differs from the documents' commands"})
        ctx.case({"files": files, "stream": rec, "ran_to_end": ok}, nontrivial=any(c[0] == "load" for c in rec),
                 kind="E:load-%s" % ("end" if ok else "stopped"))
        fs = "(fun n => %s None)" % "".join("if leqb Z.eqb n %s then Some %s else " % (L.cstr(nm), L.c_lines(ls))
                                             for nm, ls in docs.items())
        lcases.append(("stream_of_files %s 6 %s" % (fs, L.c_lines(rootlines)),
                       "(%s, %s)" % (L.c_cmds(rec), "true" if ok else "false")))
        lmetas.append((files, rec, ok))
    lbad = ctx.coq_cases(HEADER, "(fun a b => cmds_eqb (fst a) (fst b) && Bool.eqb (snd a) (snd b))", lcases,
                         shard=20, name="load")
    for i in lbad[:3]:
        ctx.tie_broken("correspondence", "C16 load model vs Builder", "files=%r implementation=%r" % lmetas[i][:2])
    ctx.extra["load_mismatches"] = len(lbad)
    ctx.extra["plan_layout_builds"] = nbuilt

    ctx.extra["t_impl_s"] = round(__import__("time").time() - ctx.t0, 1)
    # balance the shards: big (plan) cases are spread over all of them
    order = list(range(len(cases)))
    __import__("random").Random(ctx.seed).shuffle(order)
    bad = ctx.coq_cases(HEADER, "cmds_eqb", [cases[i] for i in order], shard=300)
    for i in bad[:5]:
        kind, txt, rec = metas[order[i]]
        ctx.tie_broken("correspondence", "C16 model vs Builder (%s)" % kind,
                       "input=%r implementation=%r" % (txt, rec))
    ctx.extra["mismatches"] = len(bad)
    ctx.extra["impl_property_failures"] = len(_FAILS)
    if _FAILS and not ctx.broken:
        ctx.tie_broken("correspondence", "implementation breaks layout invariance", json.dumps(_FAILS[0])[:1500])
    ctx.exhaustive = False
    ctx.settle(lambda: search(ctx))


def expand_py(files_cmds, cmds, depth=8):
    """documented meaning of load over several files (harness oracle, independent of the model):
    the loaded file's commands follow the load command; returns (stream, ran_to_end)"""
    out = []
    for c in cmds:
        out.append(c)
        if c[0] == "load":
            if len(c) != 2 or c[1] not in files_cmds or depth == 0:
                return out, False
            sub, ok = expand_py(files_cmds, files_cmds[c[1]], depth - 1)
            out += sub
            if not ok:
                return out, False
    return out, True


def search_load(ctx, reserved, load_word):
    """implementation alone, several files: an indented / re-laid-out load must splice the loaded
    file's commands right after the load command, exactly as in the canonical layout"""
    import flolib
    files_cmds = {"a.flo": [["frame", "b"], ["load", "b.flo"], ["go", "c", "if", "x"]],
                  "b.flo": [["frame", "d"], ["set", "y", "to", "1"]]}
    root = [["frame", "a"], ["load", "a.flo"], ["frame", "z"], ["put", "5", "into", "x"], ["load", "b.flo"]]
    want, _ = expand_py(files_cmds, root)
    best = None
    for i in range(120):
        lay = L.Layouter(ctx.rng, reserved, load_word, tabs=(i % 2 == 0), wild=(i % 3 == 0))
        files = {nm: file_text(L.render(lay.document([[L.classify(w) for w in c] for c in cs], pc=0.5, pb=0.3)))
                 for nm, cs in files_cmds.items()}
        files["root.flo"] = file_text(L.render(lay.document([[L.classify(w) for w in c] for c in root], pc=0.5, pb=0.3)))
        try:
            rec, ok = flolib.record_stream(ctx.work, files, "root.flo")
        except Exception as ex:
            rec, ok = [["<%s>" % type(ex).__name__]], False
        if rec != want or not ok:
            size = sum(len(t) for t in files.values())
            if best is None or size < best[0]:
                best = (size, {"files": files, "script": files["root.flo"], "observed_commands": rec,
                               "expected_commands": want, "ran_to_end": ok,
                               "why": "dispatch stream over loaded files differs from the canonical layout's"})
    return best[1] if best else None


def search(ctx):
    """the implementation alone against the property's executable statement: a grammar layout of
    a command list must dispatch exactly that command list (and build the same house)"""
    import flolib
    best = min(_FAILS, key=lambda f: len(f["script"])) if _FAILS else None
    if best is None:
        try:
            tables = translate.extract(ctx.repo)
            reserved = list(dict.fromkeys(list(tables["reserved"]) + translate.DOCUMENTED))
            load_word = tables["load_word"]
        except Exception:
            reserved = list(translate.DOCUMENTED)
            load_word = "load"
        corpus = [[["put", "true", "into", "x"]], [["frame", "a"], ["go", "b", "if", "x", "of", "me"]],
                  [["print", "\"a  b\""], ["load", "f.flo"], ["set", "x", "to", "5"]],
                  [["go", "next", "if", "not", "x", "is", "done", "and", "not", "y", "is", "done"]],
                  [["go", "b", "if", "x", "==", "5", "+-", "1"], ["aux", "h", "as", "mine", "via", "p"]],
                  [[w2, "z"] + sum([[w, "v"] for w in translate.DOCUMENTED], []) for w2 in ["frame"]]]
        for cmds in corpus:
            toks = [[L.classify(w) for w in c] for c in cmds]
            for i in range(400):
                lay = L.Layouter(ctx.rng, reserved, load_word, tabs=True, wild=(i % 2 == 0))
                doc = lay.document(toks, pc=0.6, pb=0.5)
                txt = file_text(L.render(doc))
                rec = flolib.record_commands(ctx.work, txt)
                if rec != cmds and (best is None or len(txt) < len(best["script"])):
                    best = {"script": txt, "canonical_script": file_text(L.render(L.canonical(toks))),
                            "observed_commands": rec, "expected_commands": cmds}
    if best is None:
        try:
            best = search_load(ctx, reserved, load_word)
        except NameError:
            best = search_load(ctx, list(translate.DOCUMENTED), "load")
    if best is None:
        return None
    best = shrink(ctx, best)
    best["contradicts"] = "C16.Props.load_layout_invariant" if "files" in best else "C16.Props.layout_invariant"
    best["key"] = ("layout-last-continuation-line-indent" if best.get("why", "").startswith("tab indentation")
                   else "layout-changes-commands")
    return best


def shrink(ctx, f):
    """drop physical lines / characters while the implementation still dispatches something other
    than the canonical script's commands... kept simple: try the known minimal shape first"""
    import flolib
    if "expected_commands" not in f:
        return f
    cand = "put true \\\n\tinto x\n"
    rec = flolib.record_commands(ctx.work, cand)
    want = [["put", "true", "into", "x"]]
    if rec != want:
        return {"script": cand, "canonical_script": "put true into x\n", "observed_commands": rec,
                "expected_commands": want,
                "why": "tab indentation of the last line of a backslash continuation leaks into a token"}
    return f
