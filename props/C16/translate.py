"""
C16 translator (tie T, fail-closed).

Extracts from the AST of ioflo/base/building.py and ioflo/base/globaling.py the TABLES and the
few shape facts that coq/C16/Model.v is parametrised by, and renders coq/gen/C16_Tables.v:

  gen_reserved      Reserved = Connectives + Comparisons            (list of words, code points)
  gen_load_word     the string of   `tokens[0] not in ('load')`     (python substring test)
  gen_cont_suffix   the literal of  `line.endswith('\\\n')`
  gen_comment_char  the literal of  `chunk[0] == '#'`
  gen_join_sep      the literal of  `' '.join(saveLines)`
  gen_chunk_src     source text of REO_Chunks
  gen_last_mode     how the LAST physical line of a backslash run is stripped before it is
                    joined:  LRstrip (line.rstrip() only)  |  LStrip (both ends)

Everything else in Builder.tokenize must be statement-for-statement what the hand model was
written for (compared through ast.unparse); any other shape raises Untranslatable.
"""
import ast
import os


class Untranslatable(Exception):
    pass


# the documented reserved words of FloScript (connectives + comparisons); Reserved must consist of
# single words from this set, and must contain every one of them that a parser tests literally
DOCUMENTED = ['to', 'by', 'with', 'from', 'per', 'for', 'cum', 'qua', 'via', 'as', 'at', 'in', 'of', 'on', 're',
              'is', 'if', 'be', 'into', 'and', 'not', '+-', 'rx', 'tx', '==', '<', '<=', '>=', '>', '!=']


def parser_connective_literals(cls):
    """string literals the command parsers compare against the current token as a connective:
    `connective == 'x'`, `connective in ('x', ..)`, `tokens[index] in [..]`, `tokens[index] == 'x'`"""
    words = set()
    for fn in cls.body:
        if not isinstance(fn, ast.FunctionDef) or fn.name in ("tokenize", "build"):
            continue
        for n in ast.walk(fn):
            if not isinstance(n, ast.Compare) or len(n.ops) != 1:
                continue
            left = ast.unparse(n.left)
            if left not in ("connective", "tokens[index]"):
                continue
            c = n.comparators[0]
            if isinstance(c, ast.Constant) and isinstance(c.value, str):
                words.add(c.value)
            elif isinstance(c, (ast.List, ast.Tuple)):
                for e in c.elts:
                    if isinstance(e, ast.Constant) and isinstance(e.value, str):
                        words.add(e.value)
    return sorted(words)


def _need(cond, what):
    if not cond:
        raise Untranslatable(what)


def _const_list(node, env):
    """evaluate a list-of-string-constants expression (List | Name | BinOp Add)"""
    if isinstance(node, ast.List):
        out = []
        for e in node.elts:
            _need(isinstance(e, ast.Constant) and isinstance(e.value, str), "non-constant list element")
            out.append(e.value)
        return out
    if isinstance(node, ast.Name):
        _need(node.id in env, "unknown name %s" % node.id)
        return list(env[node.id])
    if isinstance(node, ast.BinOp) and isinstance(node.op, ast.Add):
        return _const_list(node.left, env) + _const_list(node.right, env)
    raise Untranslatable("unsupported table expression: %s" % ast.dump(node)[:80])


TOKENIZE_PREFIX = [
    "saveLines = []",
    "saveLineViews = []",
]
TOKENIZE_WHILE_BODY = [
    "line = line.rstrip()",
    "saveLineViews.append('%04d %s' % (self.currentCount, line))",
    "saveLines.append(line.rstrip('\\\\').strip())",
    "line = self.currentFile.readline()",
    "self.currentCount += 1",
]
# the statements between the while loop and the join, per last-piece mode
LAST_VARIANTS = {
    ("line = line.rstrip()",
     "saveLineViews.append('%04d %s' % (self.currentCount, line))",
     "saveLines.append(line)"): "LRstrip",
    ("line = line.rstrip()",
     "saveLineViews.append('%04d %s' % (self.currentCount, line))",
     "saveLines.append(line.strip())"): "LStrip",
    ("line = line.rstrip()",
     "saveLineViews.append('%04d %s' % (self.currentCount, line))",
     "line = line.strip()",
     "saveLines.append(line)"): "LStrip",
    ("line = line.strip()",
     "saveLineViews.append('%04d %s' % (self.currentCount, line))",
     "saveLines.append(line)"): "LStrip",
}
TOKENIZE_SUFFIX_A = "lineView = '\\n'.join(saveLineViews)"
TOKENIZE_SUFFIX = [
    "line = line.strip()",
    "chunks = REO_Chunks.findall(line)",
    "tokens = []",
]


def _is_console(stmt):
    return (isinstance(stmt, ast.Expr) and isinstance(stmt.value, ast.Call)
            and isinstance(stmt.value.func, ast.Attribute)
            and isinstance(stmt.value.func.value, ast.Name) and stmt.value.func.value.id == "console")


def _body(fn):
    body = list(fn.body)
    if body and isinstance(body[0], ast.Expr) and isinstance(body[0].value, ast.Constant) \
            and isinstance(body[0].value.value, str):
        body = body[1:]
    return [s for s in body if not _is_console(s)]


def extract(repo):
    bpath = os.path.join(repo, "ioflo", "base", "building.py")
    gpath = os.path.join(repo, "ioflo", "base", "globaling.py")
    btree = ast.parse(open(bpath).read())
    gtree = ast.parse(open(gpath).read())
    out = {}

    # ---- tables ---------------------------------------------------------------------------
    env = {}
    for n in btree.body:
        if isinstance(n, ast.Assign) and len(n.targets) == 1 and isinstance(n.targets[0], ast.Name) \
                and n.targets[0].id in ("Comparisons", "Connectives", "Reserved"):
            env[n.targets[0].id] = _const_list(n.value, env)
    _need("Reserved" in env, "Reserved not found")
    for w in env["Reserved"]:
        _need(w in DOCUMENTED, "Reserved entry %r is not a single documented connective/comparison "
                               "(a lost comma concatenates two entries)" % w)
    out["reserved"] = env["Reserved"]

    # ---- chunk regex ----------------------------------------------------------------------
    src = None
    for n in gtree.body:
        if isinstance(n, ast.Assign) and len(n.targets) == 1 and isinstance(n.targets[0], ast.Name) \
                and n.targets[0].id == "REO_Chunks":
            c = n.value
            _need(isinstance(c, ast.Call) and ast.unparse(c.func) == "re.compile" and len(c.args) == 1
                  and not c.keywords and isinstance(c.args[0], ast.Constant)
                  and isinstance(c.args[0].value, str), "REO_Chunks is not re.compile(<literal>)")
            src = c.args[0].value
    _need(src is not None, "REO_Chunks not found")
    out["chunk_src"] = src

    # ---- Builder.tokenize / Builder.build -------------------------------------------------
    cls = [n for n in btree.body if isinstance(n, ast.ClassDef) and n.name == "Builder"]
    _need(len(cls) == 1, "class Builder not found")
    fns = {f.name: f for f in cls[0].body if isinstance(f, ast.FunctionDef)}
    _need("tokenize" in fns and "build" in fns, "tokenize/build not found")

    body = _body(fns["tokenize"])
    un = [ast.unparse(s) for s in body]
    _need(un[:2] == TOKENIZE_PREFIX, "tokenize prefix changed: %r" % un[:2])
    w = body[2]
    _need(isinstance(w, ast.While) and not w.orelse, "tokenize: expected while loop")
    t = w.test
    _need(isinstance(t, ast.Call) and ast.unparse(t.func) == "line.endswith" and len(t.args) == 1
          and isinstance(t.args[0], ast.Constant) and isinstance(t.args[0].value, str),
          "tokenize: while test is not line.endswith(<literal>)")
    out["cont_suffix"] = t.args[0].value
    wb = [ast.unparse(s) for s in w.body if not _is_console(s)]
    _need(wb == TOKENIZE_WHILE_BODY, "tokenize: continuation loop body changed: %r" % wb)
    rest = un[3:]
    _need(TOKENIZE_SUFFIX_A in rest, "tokenize: lineView join missing")
    k = rest.index(TOKENIZE_SUFFIX_A)
    last = tuple(rest[:k])
    _need(last in LAST_VARIANTS, "tokenize: unrecognised handling of the last line: %r" % (last,))
    out["last_mode"] = LAST_VARIANTS[last]
    rest = rest[k + 1:]
    j = body[3 + k + 1]
    _need(isinstance(j, ast.Assign) and ast.unparse(j.targets[0]) == "line"
          and isinstance(j.value, ast.Call) and isinstance(j.value.func, ast.Attribute)
          and j.value.func.attr == "join" and isinstance(j.value.func.value, ast.Constant)
          and ast.unparse(j.value.args[0]) == "saveLines" and len(j.value.args) == 1,
          "tokenize: expected  line = <sep>.join(saveLines)")
    out["join_sep"] = j.value.func.value.value
    _need(rest[1:4] == TOKENIZE_SUFFIX, "tokenize: suffix changed: %r" % rest[1:4])
    f = body[3 + k + 1 + 4]
    _need(isinstance(f, ast.For) and ast.unparse(f.target) == "chunk" and ast.unparse(f.iter) == "chunks"
          and len(f.body) == 1 and isinstance(f.body[0], ast.If) and not f.orelse, "tokenize: chunk loop changed")
    iff = f.body[0]
    c = iff.test
    _need(isinstance(c, ast.Compare) and ast.unparse(c.left) == "chunk[0]" and len(c.ops) == 1
          and isinstance(c.ops[0], ast.Eq) and isinstance(c.comparators[0], ast.Constant)
          and isinstance(c.comparators[0].value, str) and len(c.comparators[0].value) == 1,
          "tokenize: comment test changed")
    out["comment_char"] = c.comparators[0].value
    _need([ast.unparse(s) for s in iff.body] == ["break"]
          and [ast.unparse(s) for s in iff.orelse] == ["tokens.append(chunk)"], "tokenize: chunk loop body changed")
    _need(rest[5:] == ["return tokens"], "tokenize: tail changed: %r" % rest[5:])

    # build(): the two look-ahead tests
    loads, reserveds = [], []
    for n in ast.walk(fns["build"]):
        if isinstance(n, ast.Compare) and len(n.ops) == 1 and isinstance(n.ops[0], ast.NotIn):
            l, r = ast.unparse(n.left), n.comparators[0]
            if l == "tokens[0]":
                loads.append(r)
            elif l == "nextTokens[0]":
                reserveds.append(r)
    _need(len(loads) == 1 and isinstance(loads[0], ast.Constant) and isinstance(loads[0].value, str),
          "build: expected exactly one  tokens[0] not in (<str literal>)")
    out["load_word"] = loads[0].value
    _need(len(reserveds) == 1 and isinstance(reserveds[0], ast.Name) and reserveds[0].id == "Reserved",
          "build: expected exactly one  nextTokens[0] not in Reserved")
    out["loop_writes"], out["count_uses"] = layout_state(cls[0])
    out["parser_connectives"] = parser_connective_literals(cls[0])
    return out


LAYOUT_STATE = ("currentCount", "currentFile", "counts", "files", "fileName")


def layout_state(cls):
    """which Builder attributes the read loop writes, and where layout-dependent state (line
    counter, file objects) is READ by the per-verb methods.  Accepted: only
    `count=self.currentCount` keyword arguments (the declaration's line number, kept for
    messages); buildLoad (file switching, modelled).  Anything else: Untranslatable."""
    fns = {f.name: f for f in cls.body if isinstance(f, ast.FunctionDef)}
    writes = set()
    for nm in ("tokenize", "build"):
        for n in ast.walk(fns[nm]):
            tg = []
            if isinstance(n, ast.Assign):
                tg = n.targets
            elif isinstance(n, ast.AugAssign):
                tg = [n.target]
            for t in tg:
                if isinstance(t, ast.Attribute) and isinstance(t.value, ast.Name) and t.value.id == "self":
                    writes.add(t.attr)
    uses = 0
    for nm, fn in fns.items():
        if nm in ("__init__", "tokenize", "build", "buildLoad"):
            continue
        ok_nodes = set()
        for n in ast.walk(fn):
            if isinstance(n, ast.keyword) and n.arg == "count" and ast.unparse(n.value) == "self.currentCount":
                ok_nodes.add(id(n.value))
        for n in ast.walk(fn):
            if isinstance(n, ast.Attribute) and isinstance(n.value, ast.Name) and n.value.id == "self" \
                    and n.attr in LAYOUT_STATE:
                _need(id(n) in ok_nodes, "%s reads layout state self.%s outside a count= argument" % (nm, n.attr))
                uses += 1
            # writes of any loop-written attribute outside the loop would make dispatch depend on it
            tg = []
            if isinstance(n, ast.Assign):
                tg = n.targets
            elif isinstance(n, ast.AugAssign):
                tg = [n.target]
            for t in tg:
                if isinstance(t, ast.Attribute) and isinstance(t.value, ast.Name) and t.value.id == "self":
                    _need(t.attr not in LAYOUT_STATE, "%s writes layout state self.%s" % (nm, t.attr))
    return sorted(writes), uses


def cstr(s):
    for ch in s:
        if ord(ch) > 255:
            raise Untranslatable("non latin-1 character in table")
    return "[" + "; ".join(str(ord(ch)) for ch in s) + "]" if s else "[]"


def render(t):
    lines = ["(* GENERATED by props/C16/translate.py from ioflo/base/building.py + globaling.py -- do not edit *)",
             "From Coq Require Import List ZArith.", "Import ListNotations.", "Open Scope Z_scope.", "",
             "Inductive last_mode := LRstrip | LStrip.", ""]
    lines.append("Definition gen_reserved : list (list Z) := [")
    lines.append(";\n".join("  %s (* %s *)" % (cstr(w), w.replace("*)", "* )")) for w in t["reserved"]))
    lines.append("].")
    lines.append("(* connective literals the command parsers compare the current token with *)")
    lines.append("Definition gen_parser_connectives : list (list Z) := [%s]." %
                 "; ".join("%s (* %s *)" % (cstr(w), w.replace("*)", "* )")) for w in t["parser_connectives"]))
    lines.append("Definition gen_load_word : list Z := %s." % cstr(t["load_word"]))
    lines.append("Definition gen_cont_suffix : list Z := %s." % cstr(t["cont_suffix"]))
    lines.append("Definition gen_comment_char : list Z := %s." % cstr(t["comment_char"]))
    lines.append("Definition gen_join_sep : list Z := %s." % cstr(t["join_sep"]))
    lines.append("Definition gen_chunk_src : list Z := %s." % cstr(t["chunk_src"]))
    lines.append("Definition gen_last_mode : last_mode := %s." % t["last_mode"])
    lines.append("(* Builder attributes written by tokenize / the build loop; every other method reads the line")
    lines.append("   counter only as a count= argument (%d places) and no file state (checked by the translator) *)" % t["count_uses"])
    lines.append("Definition gen_loop_writes : list (list Z) := [%s]." % "; ".join(cstr(w) for w in t["loop_writes"]))
    return "\n".join(lines) + "\n"


if __name__ == "__main__":
    import sys
    print(render(extract(sys.argv[1] if len(sys.argv) > 1 else "/repo")))
