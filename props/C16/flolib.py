"""
Harness helpers shared by the C16 and C15 checks: run the REAL ioflo Builder on FloScript text
(temp files under ctx.work), record the token lists handed to dispatch, build a house without
running it and canonicalise what was built.
"""
import collections.abc  # noqa: F401
import io
import os
from collections import deque

from ioflo.base import building, excepting, storing, acting, framing
from ioflo.aid.consoling import getConsole


_silenced = [False]


def silence():
    if not _silenced[0]:
        getConsole().reinit(verbosity=0)
        _silenced[0] = True


class RecBuilder(building.Builder):
    """the real build loop (file reading, tokenize, connective look-ahead) with dispatch
    replaced by a recorder"""
    def __init__(self, *a, **k):
        super(RecBuilder, self).__init__(*a, **k)
        self.rec = []

    def dispatch(self, tokens):
        self.rec.append(list(tokens))
        return True


_ctr = [0]


def write_tmp(work, text, name=None):
    _ctr[0] += 1
    path = os.path.join(work, name or ("s%06d.flo" % _ctr[0]))
    with open(path, "w", newline="") as f:     # newline="": write the text as is
        f.write(text)
    return path


def record_commands(work, text):
    """token lists dispatched by the real Builder.build for a file with this text"""
    silence()
    path = write_tmp(work, text, "rec.flo")
    b = RecBuilder(fileName=path)
    ok = b.build()
    return b.rec if ok else None


class _Mem(io.StringIO):
    name = "<memory>"


def record_commands_mem(text):
    """same as record_commands but the file is an in-memory double (harness process only):
    building.open is shadowed for the duration of the call"""
    silence()
    b = RecBuilder(fileName="mem.flo")
    building.open = lambda fn, mode="r": _Mem(text)
    try:
        ok = b.build()
    finally:
        del building.open
    return b.rec if ok else None


def tokenize_line(line, rest=""):
    """real Builder.tokenize on one raw line (with its newline), continuation lines from rest"""
    silence()
    b = building.Builder()
    b.currentFile = io.StringIO(rest)
    return b.tokenize(line)


# ---------------------------------------------------------------------------------------
# canonical description of what was built
# ---------------------------------------------------------------------------------------

DROP = {"count"}        # dict keys left out of the canonical description (C15 adds "human")


def norm(x, depth=0):
    if depth > 8:
        return "<deep>"
    if x is None or isinstance(x, (bool, int, str)):
        return x
    if isinstance(x, float):
        return {"float": x.hex()}
    if isinstance(x, complex):
        return {"complex": repr(x)}
    if isinstance(x, bytes):
        return {"bytes": x.hex()}
    if isinstance(x, acting.Act):
        return act_sig(x, depth + 1)
    if isinstance(x, storing.Share):
        return {"share": x.name}
    if isinstance(x, storing.Node):
        return {"node": getattr(x, "name", "?")}
    if isinstance(x, tuple) and hasattr(x, "_fields"):
        return {"nt": type(x).__name__, "v": [norm(v, depth + 1) for v in x]}
    if isinstance(x, (list, tuple, deque, set, frozenset)):
        return [norm(v, depth + 1) for v in x]
    if isinstance(x, dict):
        # 'count' = script line number kept for error messages: layout dependent by design
        return {"dict": [[norm(k, depth + 1), norm(v, depth + 1)] for k, v in x.items() if k not in DROP]}
    nm = getattr(x, "name", None)
    if isinstance(nm, str):
        return {"ref": type(x).__name__, "name": nm}
    return {"obj": type(x).__name__}


def act_sig(a, depth=0):
    actor = a.actor
    return {"actor": actor if isinstance(actor, str) else type(actor).__name__,
            "actor_name": getattr(actor, "name", None) if not isinstance(actor, str) else None,
            "context": a.context,
            "frame": getattr(a.frame, "name", a.frame),
            "parms": norm(a.parms, depth + 1),
            "inits": norm(a.inits, depth + 1),
            "ioinits": norm(a.ioinits, depth + 1),
            "prerefs": norm(a.prerefs, depth + 1),
            "human": None if "human" in DROP else a.human}


ACTLISTS = ("beacts", "preacts", "enacts", "renacts", "reacts", "exacts", "rexacts")


def frame_sig(fr):
    d = {"name": fr.name, "over": getattr(fr.over, "name", fr.over),
         "unders": [getattr(u, "name", u) for u in fr.unders],
         "next": getattr(fr.next_, "name", fr.next_),
         "auxes": [getattr(x, "name", x) for x in fr.auxes]}
    for k in ACTLISTS:
        d[k] = [act_sig(a) for a in getattr(fr, k)]
    return d


TASKER_VOLATILE = {"stamp", "path", "logPath", "logFile", "file", "flushStamp", "cycleStamp", "runner", "lasts",
                   "desire", "status", "done"}


def _plain(v, depth=0):
    if v is None or isinstance(v, (bool, int, float, str)):
        return True
    if isinstance(v, (tuple, list)) and depth < 3:
        return all(_plain(x, depth + 1) for x in v)
    return False


def tasker_sig(t):
    d = {"class": type(t).__name__, "name": t.name, "period": norm(getattr(t, "period", None)),
         "schedule": getattr(t, "schedule", None)}
    if isinstance(t, framing.Framer):
        d["first"] = getattr(t.first, "name", t.first)
        d["frames"] = [frame_sig(fr) for fr in t.frameNames.values()]
        for k in ("original", "insular", "razeable", "inode"):
            d[k] = norm(getattr(t, k, None))
        d["moots"] = norm(getattr(t, "moots", None))
    else:
        # every plain-valued attribute of the tasker (its whole configuration), not a chosen few
        for k, val in sorted(vars(t).items()):
            if k in TASKER_VOLATILE or k in d:
                continue
            if _plain(val):
                d["attr:" + k] = norm(val)
        if hasattr(t, "logs"):
            logs = []
            for lg in t.logs:
                ent = {"loggees": norm(list(getattr(lg, "loggees", {}).items()))}
                for k, val in sorted(vars(lg).items()):
                    if k not in TASKER_VOLATILE and _plain(val):
                        ent["attr:" + k] = norm(val)
                logs.append(ent)
            d["logs"] = logs
    return d


def store_sig(store):
    out = []

    def walk(node, path):
        for k, v in node.items():
            p = path + "." + k
            if p in (".realtime", ".datetime"):   # wall clock at build time
                continue
            if isinstance(v, storing.Share):
                out.append([p, [[f, norm(val)] for f, val in v.items()]])
            elif isinstance(v, dict):
                walk(v, p)
    walk(store.shares, "")
    return out


def house_sig(h):
    return {"name": h.name,
            "taskers": [tasker_sig(t) for t in h.taskers],
            "fronts": [t.name for t in h.fronts], "mids": [t.name for t in h.mids],
            "backs": [t.name for t in h.backs],
            "slaves": [t.name for t in h.slaves], "auxes": [t.name for t in h.auxes],
            "moots": [t.name for t in h.moots],
            "store": store_sig(h.store)}


def build_text(work, text, name="build.flo", mem=False):
    """build (do not run) with the real Builder; returns ("ok", [house_sig...]) |
    ("false",) | ("ParseError",) | ("raise", class name).  mem=True: in-memory file double"""
    silence()
    if mem:
        b = building.Builder(fileName="mem.flo")
        building.open = lambda fn, mode="r": _Mem(text)
    else:
        b = building.Builder(fileName=write_tmp(work, text, name))
    try:
        try:
            ok = b.build()
        finally:
            if mem:
                del building.open
    except excepting.ParseError:
        return ("ParseError",)
    except Exception as ex:  # any other escape is an observable error class
        return ("raise", type(ex).__name__)
    if not ok:
        return ("false",)
    return ("ok", [house_sig(h) for h in b.houses])


def build_from_commands(cmds):
    """the house built by DISPATCH ALONE: no file, no tokenize, no line counter -- every command
    is handed to Builder.dispatch in order (currentHuman set as the build loop does), then the
    same resolve step as Builder.build.  Same result classes as build_text."""
    from ioflo.base import housing
    silence()
    b = building.Builder()
    housing.House.Clear()
    housing.ClearRegistries()
    try:
        for toks in cmds:
            b.currentHuman = " ".join(toks)
            if not b.dispatch(list(toks)):
                return ("false",)
        try:
            for house in b.houses:
                house.orderTaskables()
                house.resolve()
        except excepting.ResolveError:
            return ("false",)
    except excepting.ParseError:
        return ("ParseError",)
    except Exception as ex:
        return ("raise", type(ex).__name__)
    return ("ok", [house_sig(h) for h in b.houses])


class RecLoadBuilder(building.Builder):
    """records every dispatched command; only the load verb is really executed (buildLoad)"""
    def __init__(self, *a, **k):
        super(RecLoadBuilder, self).__init__(*a, **k)
        self.rec = []

    def dispatch(self, tokens):
        self.rec.append(list(tokens))
        if tokens[0] == "load":
            return super(RecLoadBuilder, self).dispatch(tokens)
        return True


def record_stream(work, files, root):
    """files: {name: text} written into work; returns (commands dispatched, loop ran to the end)"""
    silence()
    for nm, txt in files.items():
        write_tmp(work, txt, nm)
    b = RecLoadBuilder(fileName=os.path.join(work, root))
    try:
        ok = bool(b.build())
    except excepting.ParseError:
        ok = False
    return b.rec, ok
