"""
Python mirror of the layout grammar of coq/C16/Model.v (tok / piece / trail / segment / lcmd /
ldoc, render) + printers to Coq terms + a random layout generator.  Pure: no ioflo import.

  tok     = ("P", s) | ("Q", q, body)
  piece   = (indent, [(k, tok), ...])
  trail   = ("W", ws) | ("C", k, text)
  segment = ([(piece, k), ...], lastpiece, trail)
  lcmd    = ([filler segment...], head segment, [([filler...], segment), ...])
  ldoc    = ([lcmd...], [filler...])
"""

QUOTES = "\"'"


def classify(s):
    """token text -> tok, or None when the text is not a token of the grammar (tok_ok)"""
    if len(s) >= 2 and s[0] in QUOTES and s[-1] == s[0] and s[0] not in s[1:-1]:
        return ("Q", s[0], s[1:-1])
    if s and s[0] != "#" and not any(c.isspace() or c in QUOTES for c in s) and not s.endswith("\\"):
        return ("P", s)
    return None


def text(t):
    return t[1] if t[0] == "P" else t[1] + t[2] + t[1]


def body(ptoks):
    if not ptoks:
        return ""
    out = text(ptoks[0][1])
    for k, t in ptoks[1:]:
        out += " " * (k + 1) + text(t)
    return out


def trail_text(tr):
    return tr[1] if tr[0] == "W" else " " * (tr[1] + 1) + "#" + tr[2]


def seg_lines(seg):
    mids, lastp, tr = seg
    out = [p[0] + body(p[1]) + " " * (k + 1) + "\\" for p, k in mids]
    out.append(lastp[0] + body(lastp[1]) + trail_text(tr))
    return out


def seg_toks(seg):
    mids, lastp, _ = seg
    out = []
    for p, _k in mids:
        out += [text(t) for _, t in p[1]]
    out += [text(t) for _, t in lastp[1]]
    return out


def doc_segs(doc):
    cmds, post = doc
    out = []
    for pre, head, conts in cmds:
        out += list(pre) + [head]
        for fl, s in conts:
            out += list(fl) + [s]
    return out + list(post)


def render(doc):
    out = []
    for s in doc_segs(doc):
        out += seg_lines(s)
    return out


def doc_cmds(doc):
    out = []
    for _pre, head, conts in doc[0]:
        t = seg_toks(head)
        for _fl, s in conts:
            t += seg_toks(s)
        out.append(t)
    return out


# ---- Coq printers ------------------------------------------------------------------------

def cstr(s):
    """code-point list through a Coq string literal (one token for the parser: fast)"""
    for ch in s:
        if not (ch == "\t" or 32 <= ord(ch) < 127):
            return "[" + "; ".join(str(ord(c)) for c in s) + "]"
    return '(zs "%s"%%string)' % s.replace('"', '""')


def clist(items, ty):
    items = list(items)
    return "[" + "; ".join(items) + "]" if items else "(@nil %s)" % ty


def c_tok(t):
    return "TPlain %s" % cstr(t[1]) if t[0] == "P" else "TQuoted %d %s" % (ord(t[1]), cstr(t[2]))


def c_piece(p):
    return "(mkpiece %s %s)" % (cstr(p[0]), clist(["(%d%%nat, %s)" % (k, c_tok(t)) for k, t in p[1]], "(nat * tok)"))


def c_trail(tr):
    return "(TWs %s)" % cstr(tr[1]) if tr[0] == "W" else "(TCom %d%%nat %s)" % (tr[1], cstr(tr[2]))


def c_seg(s):
    return "(mkseg %s %s %s)" % (clist(["(%s, %d%%nat)" % (c_piece(p), k) for p, k in s[0]], "(piece * nat)"),
                                 c_piece(s[1]), c_trail(s[2]))


def c_cmd(c):
    return "(mkcmd %s %s %s)" % (clist([c_seg(s) for s in c[0]], "segment"), c_seg(c[1]),
                                 clist(["(%s, %s)" % (clist([c_seg(x) for x in fl], "segment"), c_seg(s))
                                        for fl, s in c[2]], "(list segment * segment)"))


def c_doc(d):
    return "(mkdoc %s %s)" % (clist([c_cmd(c) for c in d[0]], "lcmd"), clist([c_seg(s) for s in d[1]], "segment"))


def c_lines(lines, last_nl=True):
    n = len(lines)
    return clist(["(mkline %s %s)" % (cstr(l), "true" if (i < n - 1 or last_nl) else "false")
                  for i, l in enumerate(lines)], "pline")


def c_cmds(cmds):
    return clist([clist([cstr(t) for t in c], "(list Z)") for c in cmds], "(list (list Z))")


# ---- random layouts ------------------------------------------------------------------------

COMMENTS = ["", " note", " it's \"quoted\" # twice", " back\\slash inside", "\ttabbed ", " to of with",
            " 'x", " trailing space   ", "#", " frame x \\ "]


class Layouter(object):
    def __init__(self, rng, reserved, load_word, tabs=True, wild=True):
        self.rng = rng
        self.reserved = set(reserved)
        self.load_word = load_word
        self.tabs = tabs
        self.wild = wild

    def loadish(self, t):
        return t in self.load_word          # python substring test, as in Builder.build

    def ws(self, maxn=6):
        r = self.rng
        n = r.choice([0, 0, 1, 2, 3, 4, maxn])
        if self.tabs and r.random() < 0.4:
            return "".join(r.choice(" \t") for _ in range(n)) if n else r.choice(["", "\t"])
        return " " * n

    def k(self):
        return self.rng.choice([0, 0, 0, 0, 1, 2, 5])

    def trail(self):
        r = self.rng
        x = r.random()
        if x < 0.55:
            return ("W", "")
        if x < 0.7:
            return ("W", self.ws(3))
        c = r.choice(COMMENTS)
        if c.endswith("\\"):
            c += " "
        return ("C", self.k(), c)

    def filler(self):
        r = self.rng
        x = r.random()
        if x < 0.45:
            return ([], (self.ws(), []), ("W", ""))
        if x < 0.9 or not self.wild:
            return ([], (self.ws(), []), ("C", self.k(), r.choice(COMMENTS).rstrip("\\")))
        # a run of empty backslash lines ending in a blank or comment line
        return ([((self.ws(), []), self.k()) for _ in range(r.randint(1, 2))], (self.ws(), []), self.trail())

    def fillers(self):
        r = self.rng
        return [self.filler() for _ in range(r.choice([0, 0, 0, 1, 1, 2]))]

    def segment(self, toks, pb):
        """toks: list of tok; split into pieces at random token boundaries"""
        r = self.rng
        pieces, cur = [], []
        for i, t in enumerate(toks):
            if i > 0 and r.random() < pb:
                pieces.append(cur)
                cur = []
                if self.wild and r.random() < 0.1:
                    pieces.append([])                # a line holding only the backslash
            cur.append((self.k(), t))
        if self.wild and r.random() < 0.05:
            pieces.append(cur)
            cur = []                                  # tokens all before the last backslash
        mids = [((self.ws(), p), self.k()) for p in pieces]
        return (mids, (self.ws(), cur), self.trail())

    def command(self, toks, pc, pb):
        r = self.rng
        texts = [text(t) for t in toks]
        cuts = []
        if not self.loadish(texts[0]):
            cuts = [i for i in range(1, len(toks)) if texts[i] in self.reserved and r.random() < pc]
        bounds = [0] + cuts + [len(toks)]
        segs = [toks[a:b] for a, b in zip(bounds, bounds[1:])]
        head = self.segment(segs[0], pb)
        conts = [(self.fillers(), self.segment(s, pb)) for s in segs[1:]]
        return (self.fillers(), head, conts)

    def document(self, cmds, pc=0.5, pb=0.25):
        return ([self.command(c, pc, pb) for c in cmds], self.fillers())


def canonical(cmds):
    """one command per line, single spaces, no indentation"""
    return ([([], ([], ("", [(0, t) for t in c]), ("W", "")), []) for c in cmds], [])


def classify_cmds(cmds, reserved):
    """list of token-text lists -> list of tok lists, or None when some token is outside the
    grammar or a command head is a Reserved word (doc_ok would fail)"""
    out = []
    for c in cmds:
        if not c or c[0] in reserved:
            return None
        ts = [classify(s) for s in c]
        if any(t is None for t in ts):
            return None
        out.append(ts)
    return out
