"""
C22 -- each log rule records exactly the runs and updates it promises.

Tie H: coq/C22/Model.v is a hand model of Log.once/always/update/change/streak/deck/never,
Log.prepare/buildHeader/log/logStreak/logDeck, Log.reopen's `first` flag and the Logger runner's
START/RUN/STOP with one Log.
  theorems       : coq/C22/Props.v (all histories of share writes and logger controls)
  correspondence : the same histories are run on the real Logger/Log in a temp dir under ctx.work
                   (House + Store, logger.runner.send(...), as ioflo/base/test/test_logging.py does)
                   and on the model (vm_compute inside Coq); log file lines and final shares compared.
Known finding `update-after-logger-same-tick`: rule update compares loggee.stamp > log.stamp, so a write
made after the logger ran in the same tick is never logged.  The model is faithful to the code; the
theorem for `update` is proved under `sched_ok` (no loggee write after a logger run within a tick),
`update_same_tick_refuted` exhibits the failing history, the check replays it on the real Logger and, if
the implementation indeed drops the record, reports it through search() with that key.
"""
import itertools
import json
import os
import sys

sys.path.insert(0, os.path.dirname(os.path.abspath(__file__)))
import harness  # noqa: E402

from vlib import cz, clist, cnat, copt  # noqa: E402

LEVEL = "proof"
KNOWN_KEY = "update-after-logger-same-tick"
RULES = harness.RULES
CRULE = {"never": "Never", "once": "Once", "always": "Always", "update": "Update", "change": "Change",
         "streak": "Streak", "deck": "Deck"}


# ---------------------------------------------------------------- Coq rendering
def c_val(v):
    if isinstance(v, dict) and "p" in v:
        return "(VP %s %s)" % (cz(v["p"][0]), cz(v["p"][1]))
    if isinstance(v, dict) and "m" in v:
        return "(VM %s)" % clist(["(%s, %s)" % (cz(k), cz(x)) for k, x in v["m"]], "(Z * Z)")
    if isinstance(v, dict) and "dq" in v:
        v = v["dq"]
    if isinstance(v, list):
        return "(VL %s)" % clist([cz(x) for x in v], "Z")
    return "(VZ %s)" % cz(v)


def c_data(kvs):
    return clist(["(%s, %s)" % (cz(k), c_val(v)) for k, v in kvs], "(Z * val)")


def c_dentry(e):
    if "m" in e:
        return "(DMap %s)" % clist(["(%s, %s)" % (cz(k), cz(v)) for k, v in e["m"]], "(Z * Z)")
    o = e["o"]
    if o is None:
        return "(DOther ONone)"
    if isinstance(o, bool):
        raise ValueError("deck entry %r not expressible in the model" % (o,))
    if isinstance(o, int):
        return "(DOther (OInt %s))" % cz(o)
    if isinstance(o, str):
        return "(DOther (OStr %s))" % clist([cz(ord(ch)) for ch in o], "Z")
    if isinstance(o, list) and all(isinstance(x, int) and not isinstance(x, bool) for x in o):
        return "(DOther (OList %s))" % clist([cz(x) for x in o], "Z")
    raise ValueError("deck entry %r not expressible in the model" % (o,))


def c_share(data, stamp, deck):
    return "{| sdata := %s; sstamp := %s; sdeck := %s |}" % (
        c_data(data), copt(stamp, cz), clist([c_dentry(e) for e in deck], "dentry"))


def c_cell(c):
    return "None" if c is None else "(Some %s)" % c_val(c)


def c_line(ln):
    if ln[0] == "H":
        cols = clist(["(%s, %s)" % (cz(t), copt(f, cz)) for t, f in ln[2]], "(Z * option Z)")
        return "(Hdr %s %s)" % (CRULE[ln[1]], cols)
    if ln[0] == "R":
        return "(Rec %s %s)" % (cz(ln[1]), clist([c_cell(c) for c in ln[2]], "(option val)"))
    raise ValueError("unparseable log line %r" % (ln,))


def c_file(f):
    return "None" if f is None else "(Some %s)" % clist([c_line(l) for l in f], "line")


def c_op(op):
    o = op[0]
    if o == "tick":
        return "Tick"
    if o == "write":
        return "(Write %s %s)" % (cnat(op[1]), c_data(op[2]))
    if o == "change":
        return "(Chg %s %s)" % (cnat(op[1]), c_data(op[2]))
    if o == "push":
        return "(Push %s %s)" % (cnat(op[1]), c_dentry(op[2]))
    if o == "append":
        return "(Append %s %s %s)" % (cnat(op[1]), cz(op[2]), cz(op[3]))
    if o == "put":
        return "(Put %s %s %s %s)" % (cnat(op[1]), cz(op[2]), cz(op[3]), cz(op[4]))
    return {"run": "Run", "start": "Start", "stop": "Stop"}[o]


def c_cfg(case):
    lgs = clist(["(%s, %s, %s)" % (cz(t), cnat(s), clist([cz(k) for k in fs], "Z"))
                 for t, s, fs in case["loggees"]], "loggee")
    return "{| crule := %s; clog := %s |}" % (CRULE[case["rule"]], lgs)


def c_model(case):
    shares = clist([c_share(sh["data"], 0 if sh.get("stamped") else None, []) for sh in case["shares"]], "share")
    pre = None if case.get("pre") is None else harness.parse_file(case["pre"])
    return "(obs (run %s 0 %s %s %s))" % (c_cfg(case), shares, c_file(pre),
                                          clist([c_op(o) for o in case["ops"]], "op"))


def c_result(res):
    shares = clist([c_share(sh["data"], sh["stamp"], sh["deck"]) for sh in res["shares"]], "share")
    return "(%s, %s)" % (c_file(res["file"]), shares)


HEADER = """From Coq Require Import List ZArith Bool.
Import ListNotations.
Require Import V.C22.Model.
Open Scope Z_scope.
Definition obs (s : st) := (file s, shares s).
Definition oz_eqb (a b : option Z) := match a, b with Some x, Some y => Z.eqb x y | None, None => true | _, _ => false end.
Fixpoint l_eqb {A} (e : A -> A -> bool) (a b : list A) := match a, b with [], [] => true | x::a', y::b' => e x y && l_eqb e a' b' | _, _ => false end.
Definition col_eqb (a b : Z * option Z) := Z.eqb (fst a) (fst b) && oz_eqb (snd a) (snd b).
Definition rule_eqb (a b : rule) := match a, b with Never, Never | Once, Once | Always, Always | Update, Update | Change, Change | Streak, Streak | Deck, Deck => true | _, _ => false end.
Definition line_eqb (a b : line) := match a, b with
  | Hdr r c, Hdr r' c' => rule_eqb r r' && l_eqb col_eqb c c'
  | Rec t c, Rec t' c' => Z.eqb t t' && cells_eqb c c'
  | _, _ => false end.
Definition file_eqb (a b : option (list line)) := match a, b with Some x, Some y => l_eqb line_eqb x y | None, None => true | _, _ => false end.
Definition kv_eqb (a b : Z * val) := Z.eqb (fst a) (fst b) && val_eqb (snd a) (snd b).
Definition kz_eqb (a b : Z * Z) := Z.eqb (fst a) (fst b) && Z.eqb (snd a) (snd b).
Definition ot_eqb (a b : other) := match a, b with ONone, ONone => true | OInt x, OInt y => Z.eqb x y | OStr x, OStr y => l_eqb Z.eqb x y | OList x, OList y => l_eqb Z.eqb x y | _, _ => false end.
Definition de_eqb (a b : dentry) := match a, b with DMap x, DMap y => l_eqb kz_eqb x y | DOther x, DOther y => ot_eqb x y | _, _ => false end.
Definition sh_eqb (a b : share) := l_eqb kv_eqb (sdata a) (sdata b) && oz_eqb (sstamp a) (sstamp b) && l_eqb de_eqb (sdeck a) (sdeck b).
Definition r_eqb (a b : option (list line) * list share) := file_eqb (fst a) (fst b) && l_eqb sh_eqb (snd a) (snd b).
"""


# ---------------------------------------------------------------- the property, executable
def ctl_ok(ops):
    a = False
    for op in ops:
        if op[0] == "start":
            a = True
        elif op[0] == "stop":
            if not a:
                return False
            a = False
        elif op[0] == "run" and not a:
            return False
    return True


def spec_check(case, res):
    """the property's statement on the implementation's observable result (no model involved).
    returns None | (why, is_known_update_defect)"""
    f = res["file"]
    ops = case["ops"]
    rule = case["rule"]
    if not any(o[0] == "start" for o in ops):
        return None
    if f is None:
        return ("no log file", False)
    pre = [] if case.get("pre") is None else harness.parse_file(case["pre"])
    if f[:len(pre)] != pre:
        return ("pre-existing file content not preserved", False)
    new = f[len(pre):]
    if any(l[0] == "B" for l in new):
        return ("unparseable line", False)
    hdrs = [i for i, l in enumerate(new) if l[0] == "H"]
    if case.get("pre") is None:
        if hdrs != [0]:
            return ("new file does not start with exactly one header: header lines at %r" % hdrs, False)
        if new[0][1] != rule:
            return ("header names rule %r" % new[0][1], False)
    elif hdrs:
        return ("header written into a pre-existing file", False)
    recs = [l for l in new if l[0] == "R"]
    # replay the history keeping the ideal expectation per rule
    def pyval(v):     # list / deque -> list (a FIFO queue), mapping -> insertion-ordered dict
        if isinstance(v, list):
            return list(v)
        if isinstance(v, dict) and "dq" in v:
            return list(v["dq"])
        if isinstance(v, dict) and "m" in v:
            return dict((k, x) for k, x in v["m"])
        return v

    def canon(v):
        return {"m": [[k, x] for k, x in v.items()]} if isinstance(v, dict) else v

    shares = [{"data": dict((k, pyval(v)) for k, v in sh["data"]),
               "order": [k for k, _ in sh["data"]], "deck": []} for sh in case["shares"]]
    loggee_idx = set(s for _, s, _ in case["loggees"])
    tick = 0
    exp = []          # expected records (tick, cells) ; cells None = do not compare cells
    started = False
    logged_once = False
    pending = False   # ideal update: a loggee was updated since the previous record
    late = False      # a loggee write happened in the tick of this log's last record (known defect territory)
    ran_this_tick = False
    fields = None
    lastcells = None
    active = False
    restarted = False

    def cells():
        out = []
        for (_, si, _), fs in zip(case["loggees"], fields):
            for k in fs:
                v = shares[si]["data"].get(k)
                out.append(list(v) if isinstance(v, list) else v)
        return out

    def logger_run():
        nonlocal logged_once, pending, lastcells
        if rule == "never":
            return
        if rule in ("streak", "deck"):
            _, si, _ = case["loggees"][0]
            if rule == "deck":
                for e in shares[si]["deck"]:
                    if "m" in e:
                        m = dict(e["m"])
                        exp.append((tick, [m.get(k) for k in fields[0]]))
                shares[si]["deck"] = []
            else:
                sh = shares[si]
                if sh["order"]:
                    k = fields[0][0] if fields[0] else sh["order"][0]
                    if k in sh["data"]:
                        v = sh["data"][k]
                        if isinstance(v, list):
                            for x in v:
                                exp.append((tick, [x]))
                            sh["data"][k] = []
                        elif isinstance(v, dict):      # the promise includes the order: FIFO = insertion order
                            for mk, mv in v.items():
                                exp.append((tick, [{"p": [mk, mv]}]))
                            sh["data"][k] = {}
                        else:
                            exp.append((tick, [v]))
            return
        c = cells()
        if rule == "once":
            if not logged_once:
                exp.append((tick, c))
        elif rule == "always":
            exp.append((tick, c))
        elif rule == "update":
            if not logged_once or pending:
                exp.append((tick, c))
                pending = False
        elif rule == "change":
            if not logged_once or c != lastcells:
                exp.append((tick, c))
                lastcells = c
        logged_once = True

    for op in ops:
        o = op[0]
        if o == "tick":
            tick += 1
            ran_this_tick = False
        elif o in ("write", "change"):
            sh = shares[op[1]]
            for k, v in op[2]:
                if k not in sh["data"]:
                    sh["order"].append(k)
                sh["data"][k] = pyval(v)
            if o == "write" and op[1] in loggee_idx:
                pending = True
                # the open known finding needs the write in the SAME tick in which the log wrote its last record
                # (log.stamp == store.stamp at the write); a write after a run that wrote NOTHING is not it
                if ran_this_tick and exp and exp[-1][0] == tick:
                    late = True
        elif o == "push":
            e = op[2]
            shares[op[1]]["deck"].append({"m": [list(kv) for kv in e["m"]]} if "m" in e else {"o": e["o"]})
        elif o == "append":
            v = shares[op[1]]["data"].get(op[2])
            if isinstance(v, list):
                v.append(op[3])
        elif o == "put":
            v = shares[op[1]]["data"].get(op[2])
            if isinstance(v, dict):
                v[op[3]] = op[4]
        elif o == "start":
            if started:
                restarted = True
            if not started or fields is None:
                fields = [list(fs) for _, _, fs in case["loggees"]]
            if rule == "streak":
                _, si, _ = case["loggees"][0]
                fields[0] = fields[0][:1] if fields[0] else shares[si]["order"][:1]
            else:
                for j, (_, si, _) in enumerate(case["loggees"]):
                    if not fields[j]:
                        fields[j] = list(shares[si]["order"])
            started = True
            active = True
            logger_run()
            ran_this_tick = True
        elif o == "run":
            if active:
                logger_run()
                ran_this_tick = True
        elif o == "stop":
            if active:
                logger_run()
                ran_this_tick = True
                active = False
    got = [(l[1], l[2]) for l in recs]
    if rule == "change" and restarted:
        return None   # restart re-bases `lasts` (prepare); outside the property's histories
    if got != exp:
        known = (rule == "update" and late)
        return ("records %r, the rule promises %r" % (got, exp), known)
    if rule in ("streak", "deck"):
        # the queue holds exactly what was queued after the last logger run (empty right after a run)
        _, si, _ = case["loggees"][0]
        sh = res["shares"][si]
        if rule == "deck" and sh["deck"] != shares[si]["deck"]:
            return ("deck after the history is %r, expected %r" % (sh["deck"], shares[si]["deck"]), False)
        if rule == "streak":
            want = [[k, canon(shares[si]["data"][k])] for k in shares[si]["order"]]
            if sh["data"] != want:
                return ("streak share after the history is %r, expected %r" % (sh["data"], want), False)
    return None


# ---------------------------------------------------------------- generators
def gen_case(rng, rule, late_ok=True, size=12):
    nsh = rng.randint(1, 3)
    shares = []
    for i in range(nsh):
        nf = rng.randint(0 if rule not in ("deck",) else 1, 3)
        data = [[k, rng.randint(0, 3)] for k in range(nf)]
        shares.append({"data": data, "stamped": rng.random() < 0.6})
    if rule == "streak":
        # the streak share: its drained field holds a list / deque / dict / OrderedDict (or, sometimes, a scalar)
        r = rng.random()
        if r < 0.9:
            init = [rng.randint(0, 9) for _ in range(rng.randint(0, 3))]
            kind = rng.choice(["list", "dq", "m", "m", "od"])
            if kind == "list":
                q = init
            elif kind == "dq":
                q = {"dq": init}
            else:
                q = {"m": [[10 + j, x] for j, x in enumerate(init)], "od": kind == "od"}
            shares[0]["data"] = [[0, q]] + [[k, rng.randint(0, 3)] for k in range(1, rng.randint(1, 3))]
        loggees = [[0, 0, rng.choice([[], [0], [0, 1]])]]
    elif rule == "deck":
        loggees = [[0, 0, rng.choice([[0], [0, 1], [1, 0, 2]])]]
    else:
        nl = rng.randint(1, min(2, nsh))
        idx = rng.sample(range(nsh), nl)
        loggees = []
        for t, si in enumerate(idx):
            keys = [k for k, _ in shares[si]["data"]]
            # incl. selections naming a field the share does not have (yet), listed first / in the middle / last
            sel = rng.choice([[], keys[:1], keys[-1:], keys, list(reversed(keys)), keys[:1] + [5],
                              [5] + keys, keys[:1] + [5] + keys[1:], [5] + list(reversed(keys))])
            loggees.append([t, si, sel])
    ops = []
    for _ in range(rng.randint(0, 3)):
        ops.append(rng.choice([["tick"], rnd_write(rng, shares, rule)]))
    ops.append(["start"])
    active = True
    for _ in range(rng.randint(2, size)):
        r = rng.random()
        if r < 0.25:
            ops.append(["tick"])
        elif r < 0.45:
            if active:
                ops.append(["run"])
        elif r < 0.50:
            if active:
                ops.append(["stop"])
                active = False
            else:
                ops.append(["start"])
                active = True
        else:
            ops.append(rnd_write(rng, shares, rule))
    if active and rng.random() < 0.8:
        ops.append(["stop"])
    pre = None
    if rng.random() < 0.1:
        pre = "text\t%s\tlg\n_time\tt0\n0.0\t5\n" % CRULE[rule]
    return {"shares": shares, "rule": rule, "loggees": loggees, "pre": pre, "ops": ops}


def rnd_write(rng, shares, rule):
    s = rng.randrange(len(shares))
    if rule == "deck" and rng.random() < 0.6:
        if rng.random() < 0.8:
            return ["push", 0, {"m": [[k, rng.randint(0, 9)] for k in rng.sample(range(3), rng.randint(0, 3))],
                                "plain": rng.random() < 0.3}]
        if rng.random() < 0.5:
            return ["push", 0, {"o": rng.randint(0, 9)}]
        return ["push", 0, {"o": rng.choice([None, None, 0, "", [], "ab", [0], [3, 1]])}]
    if rule == "streak" and rng.random() < 0.7:
        v0 = shares[0]["data"][0][1] if shares[0]["data"] else None
        if isinstance(v0, dict) and "m" in v0:
            return ["put", 0, 0, rng.randint(0, 30), rng.randint(0, 9)]
        return ["append", 0, 0, rng.randint(0, 9)]
    keys = [k for k, v in shares[s]["data"] if not isinstance(v, (list, dict))]
    if rng.random() < 0.15:
        keys = keys + [rng.randint(3, 5)]     # creates a new field (5 = the one some selections name)
    if not keys:
        keys = [0] if not shares[s]["data"] else []
    kvs = [[k, rng.randint(0, 3)] for k in rng.sample(keys, rng.randint(0, len(keys)))]
    return [rng.choice(["write", "write", "change"]), s, kvs]


def exhaustive_cases(depth):
    """small scope: one share with one field, every rule among once/always/update/change/never, every
    sequence of `depth` (update, change) / `depth`-1 (never, once, always) body ops over {tick, run, write same value, write other value, change other value}"""
    out = []
    alphabet = [["tick"], ["run"], ["write", 0, [[0, 1]]], ["write", 0, [[0, 2]]], ["change", 0, [[0, 2]]]]
    for rule in ("never", "once", "always", "update", "change"):
        d = depth if rule in ("update", "change") else depth - 1
        for body in itertools.product(range(len(alphabet)), repeat=d):
            ops = [["start"]] + [alphabet[i] for i in body] + [["stop"]]
            out.append({"shares": [{"data": [[0, 1]], "stamped": True}], "rule": rule,
                        "loggees": [[0, 0, []]], "pre": None, "ops": ops})
    return out


def missing_field_cases(depth):
    """rules change / always / update on a share {f0, f1} with a selection naming f5, which does not exist at START,
    before / between / after the existing fields; every sequence of `depth` body ops over {tick, run, change f0,
    change f1, write f1, create f5}"""
    out = []
    alphabet = [["tick"], ["run"], ["change", 0, [[0, 2]]], ["change", 0, [[1, 3]]], ["write", 0, [[1, 4]]],
                ["write", 0, [[5, 9]]]]
    for rule in ("change", "always", "update"):
        for sel in ([5, 0], [0, 5, 1], [5, 1, 0], [0, 1, 5]):
            if rule != "change" and sel != [0, 5, 1]:
                continue
            for body in itertools.product(range(len(alphabet)), repeat=depth):
                ops = [["start"]] + [alphabet[i] for i in body] + [["stop"]]
                out.append({"shares": [{"data": [[0, 1], [1, 1]], "stamped": True}], "rule": rule,
                            "loggees": [[0, 0, sel]], "pre": None, "ops": ops})
    return out


def streak_bursts(rng, n):
    """streak on a list / deque / dict / OrderedDict value with 2..4 items queued between logger runs"""
    out = []
    for kind in ("list", "dq", "m", "od"):
        for _ in range(n):
            q = [] if kind == "list" else {"dq": []} if kind == "dq" else {"m": [], "od": kind == "od"}
            ops, nxt = [["start"]], 0
            for _ in range(rng.randint(2, 5)):
                ops.append(["tick"])
                for _ in range(rng.choice([0, 1, 2, 3, 4])):
                    nxt += 1
                    if kind in ("m", "od"):
                        ops.append(["put", 0, 0, rng.choice([nxt, nxt, 50 - nxt, rng.randint(1, 6)]), rng.randint(0, 9)])
                    else:
                        ops.append(["append", 0, 0, rng.randint(0, 9)])
                ops.append(rng.choice([["run"], ["run"], ["stop"]]))
                if ops[-1] == ["stop"]:
                    ops.append(["start"])
            ops.append(["stop"])
            out.append({"shares": [{"data": [[0, q], [1, 7]], "stamped": True}], "rule": "streak",
                        "loggees": [[0, 0, rng.choice([[], [0]])]], "pre": None, "ops": ops})
    return out


# deck entries whose truth value is False although they are queued elements like any other: None, 0, '', [] are
# not mappings (consumed and skipped), {} (odict / plain dict) IS a mapping (a record of bare tabs); plus truthy
# non-mappings of the same sorts
FALSY = [{"o": None}, {"o": 0}, {"o": ""}, {"o": []}, {"m": []}, {"m": [], "plain": True}]
TRUTHY_OTHER = [{"o": 7}, {"o": "ab"}, {"o": [0]}]


def deck_falsy_cases(rng, nrand):
    """directed, runs first: rule deck with None / 0 / '' / [] / {} queued before, between and behind mappings,
    drained by START, by a later RUN and by STOP; all pairs of special entries in front of a mapping; every deck of
    length 3 over {mapping, None, 0, {}} drained by one run; plus `nrand` random decks dense in special entries"""
    out = []
    nxt = [0]

    def m(keys=(0, 1)):
        nxt[0] += 1
        return {"m": [[k, (nxt[0] + 3 * k) % 10] for k in keys]}

    def case(pre, mid, last, sel=(0, 1), stop=True):
        ops = [["push", 0, e] for e in pre] + [["start"], ["tick"]]
        ops += [["push", 0, e] for e in mid] + [["run"], ["tick"]]
        ops += [["push", 0, e] for e in last] + ([["stop"]] if stop else [])
        return {"shares": [{"data": [[0, 1], [1, 2]], "stamped": True}], "rule": "deck",
                "loggees": [[0, 0, list(sel)]], "pre": None, "ops": ops}

    specials = FALSY + TRUTHY_OTHER
    for f in specials:
        for lay in ([f], [f, m()], [m(), f], [m(), f, m()], [f, f, m((1,))], [m((0,)), f, m(), f, m((1, 0))]):
            out.append(case(lay, [], []))          # drained by START
            out.append(case([], lay, []))          # by a later RUN
            out.append(case([m()], [], lay))       # by STOP
        out.append(case([m(), f], [f, m()], [m(), f, m()], sel=(1, 0, 2)))
        out.append(case([f, m()], [m(), f], [], stop=False))     # left queued: never run again
    for f in specials:
        for g in specials:
            out.append(case([f, g, m()], [g, m(), f], []))
    small = [None, {"o": None}, {"o": 0}, {"m": []}]
    for trio in itertools.product(small, repeat=3):
        out.append(case([], [m((0,)) if e is None else e for e in trio], [m()]))
    for _ in range(nrand):
        def burst():
            return [rng.choice(specials) if rng.random() < 0.6 else m(rng.choice([(0,), (1,), (0, 1), (2, 0)]))
                    for _ in range(rng.randint(0, 5))]
        out.append(case(burst(), burst(), burst(), sel=rng.choice([(0,), (0, 1), (1, 0, 2)]),
                        stop=rng.random() < 0.8))
    return out


def has_late_write(case):
    lg = set(s for _, s, _ in case["loggees"])
    ran = False
    for op in case["ops"]:
        if op[0] == "tick":
            ran = False
        elif op[0] in ("run", "start", "stop"):
            ran = True
        elif op[0] == "write" and op[1] in lg and ran:
            return True
    return False


WITNESS = {"shares": [{"data": [[0, 1]], "stamped": True}], "rule": "update", "loggees": [[0, 0, []]],
           "pre": None, "ops": [["start"], ["write", 0, [[0, 7]]], ["tick"], ["run"], ["tick"], ["run"], ["stop"]]}


def run(ctx):
    ctx.rule = ("histories of share writes (update/change/push/append, same or different values, before or "
                "after the logger within a tick, across ticks) and logger controls (START/RUN/STOP incl. "
                "restarts) for every rule and field selection; deck entries are mappings (incl. the empty mapping, "
                "odict or plain dict) and non-mappings None / ints incl. 0 / strings incl. '' / lists incl. [] "
                "(directed family `falsy` first: such entries before, between and behind mappings, drained by "
                "START / RUN / STOP); run on the real Logger/Log and on the Coq model; "
                "log file lines and final shares compared; non-trivial = at least two logger runs and one share "
                "write; distinct by full case")
    ctx.assumptions = [
        "store.stamp = tick * 0.125 (exact in binary64); field values are ints (lists of ints for the streak field); "
        "non-mapping deck entries are None, ints, strings or lists of ints",
        "one Log per Logger; text kind; no field deletion; controls as the Skedder produces them (RUN/STOP only "
        "reach a started logger)",
        "restart (STOP then START) re-bases rule change's lasts in prepare(): modelled faithfully, excluded "
        "from the change theorem (hypothesis: one START)",
    ]
    ctx.coq_build("C22/Props.v")

    cases = []
    for c in deck_falsy_cases(ctx.rng, ctx.n(60, 1500)):      # directed family, first, in every tier
        cases.append(("falsy", c))
    for c in exhaustive_cases(ctx.n(4, 5)):
        cases.append(("exh", c))
    for rule in RULES:
        for _ in range(ctx.n(150, 2000)):
            cases.append(("rnd", gen_case(ctx.rng, rule)))
    for c in missing_field_cases(ctx.n(2, 4)):
        cases.append(("missing", c))
    for c in streak_bursts(ctx.rng, ctx.n(12, 150)):
        cases.append(("burst", c))
    cases.append(("witness", WITNESS))

    pairs, metas = [], []
    for kind, case in cases:
        res = harness.run_case(case, ctx.work)
        nrun = sum(1 for o in case["ops"] if o[0] in ("run", "start", "stop"))
        nwr = sum(1 for o in case["ops"] if o[0] in ("write", "change", "push", "append", "put"))
        ctx.case({"case": case, "file": res["file"]}, nontrivial=nrun >= 2 and nwr >= 1,
                 kind="%s:%s" % (kind, case["rule"]))
        try:
            lit = c_result(res)
        except ValueError as ex:
            ctx.tie_broken("correspondence", "C22 unparseable log file", "case=%s: %s" % (json.dumps(case), ex))
            metas.append((case, res))
            pairs.append(("(None, [])", "(Some [], [])"))
            continue
        pairs.append((c_model(case), lit))
        metas.append((case, res))
    bad = ctx.coq_cases(HEADER, "r_eqb", pairs)
    for i in bad[:5]:
        case, res = metas[i]
        ctx.tie_broken("correspondence", "C22 model vs Logger/Log",
                       "case=%s impl=%s" % (json.dumps(case), json.dumps(res)))
    ctx.extra["mismatches"] = len(bad)
    ctx.exhaustive = False

    # replay of the Coq witness of update_same_tick_refuted on the real Logger
    wres = harness.run_case(WITNESS, ctx.work)
    wbad = spec_check(WITNESS, wres)
    ctx.extra["update_witness_reproduces_on_implementation"] = bool(wbad)
    if wbad:
        ctx.tie_broken("refuted", "update_same_tick_refuted witness reproduces on the implementation",
                       "history=%s file=%s: %s" % (json.dumps(WITNESS["ops"]), json.dumps(wres["file"]), wbad[0]))

    def search():
        # the implementation alone against the property's executable statement
        other, known = None, None
        for case, res in [(WITNESS, wres)] + metas:
            if not ctl_ok(case["ops"]):
                continue
            why = spec_check(case, res)
            if not why:
                continue
            rec = {"rule": case["rule"], "shares": case["shares"], "loggees": case["loggees"],
                   "pre": case["pre"], "ops": case["ops"], "impl_file": res["file"], "why": why[0]}
            if why[1]:
                if known is None:
                    known = dict(rec, key=KNOWN_KEY,
                                 contradicts="C22.Props.update_logs_every_update without its sched_ok hypothesis "
                                             "(see update_same_tick_refuted)")
            else:
                if other is None or len(case["ops"]) < len(other["ops"]):
                    other = dict(rec, contradicts="C22.Props theorem of rule %s" % case["rule"])
        if other:
            return other
        # the known defect may only explain the run when nothing else is broken
        if all(k == "refuted" for k, _, _ in ctx.broken):
            return known
        return None

    ctx.settle(search)
