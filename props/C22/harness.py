"""
C22 harness: drive the real ioflo Logger/Log with a history of share writes and logger
controls (as test_logging.py does: House + Store, logger.runner.send(START|RUN|STOP)),
then read the log file back and canonicalise it.

case = {"shares": [{"data": [[k, v], ...], "stamped": bool}, ...],
        "rule": "update", "loggees": [[tag, share_index, [field keys]], ...],
        "pre": None | "text of a pre-existing log file",
        "ops": [["tick"] | ["write", s, [[k, v], ...]] | ["change", s, [[k, v], ...]] |
                ["push", s, entry] | ["append", s, k, x] | ["run"] | ["start"] | ["stop"]]}
keys/tags are small ints (rendered f<k>, t<tag>); values ints or lists of ints;
deck entries: {"m": [[k, int], ...]} (a mapping: odict, or a plain dict with "plain": true) or
{"o": None | int | str | [ints]} (not a mapping).
result = {"file": [line...], "shares": [...]}   line = ["H", rule, [[tag, key|None]...]] |
         ["R", tick, [cell...]]  | ["B", raw]     cell = None | int | [ints]
"""
import collections.abc  # noqa: F401
import ast
import os
import shutil

DT = 0.125
RULES = ["never", "once", "always", "update", "change", "streak", "deck"]


def _mk():
    from ioflo.base import housing, storing, logging, globaling  # noqa
    from ioflo.aid.consoling import getConsole
    getConsole().reinit(verbosity=0)
    housing.House.Clear()
    housing.ClearRegistries()
    house = housing.House(name="HouseC22")
    house.assignRegistries()
    return house


def mk_val(v):
    """case value -> python object stored in the share"""
    import collections
    if isinstance(v, list):
        return list(v)
    if isinstance(v, dict):
        if "dq" in v:
            return collections.deque(v["dq"])
        if "m" in v:
            items = [(k, x) for k, x in v["m"]]
            return collections.OrderedDict(items) if v.get("od") else dict(items)
    return v


def un_val(v):
    """python object found in the share -> canonical result value (deque -> list, dict -> {"m": items})"""
    import collections
    if isinstance(v, (list, collections.deque)):
        return list(v)
    if isinstance(v, dict):
        return {"m": [[k, x] for k, x in v.items()]}
    return v


def parse_cell(txt):
    if txt == "":
        return None
    try:
        v = ast.literal_eval(txt)
    except Exception:
        return {"raw": txt}
    if isinstance(v, bool):
        return {"raw": txt}
    if isinstance(v, int):
        return v
    if isinstance(v, list) and all(isinstance(x, int) and not isinstance(x, bool) for x in v):
        return v
    if isinstance(v, tuple) and len(v) == 2 and all(isinstance(x, int) and not isinstance(x, bool) for x in v):
        return {"p": [v[0], v[1]]}        # a (key, value) item of a mapping-valued streak
    return {"raw": txt}


def parse_file(text):
    """canonical lines; header = two text lines"""
    from ioflo.base import globaling
    names = {v.lower(): v for v in globaling.LogRuleValues}
    out = []
    lines = text.split("\n")
    if lines and lines[-1] == "":
        lines.pop()
    else:
        out.append(["B", "no trailing newline"])
    i = 0
    while i < len(lines):
        ln = lines[i]
        parts = ln.split("\t")
        if parts[0] == "text":
            if (len(parts) == 3 and parts[1].lower() in names and i + 1 < len(lines)
                    and lines[i + 1].split("\t")[0] == "_time"):
                cols = []
                ok = True
                for c in lines[i + 1].split("\t")[1:]:
                    if "." in c:
                        t, f = c.split(".", 1)
                    else:
                        t, f = c, None
                    if not (t[:1] == "t" and t[1:].isdigit() and (f is None or (f[:1] == "f" and f[1:].isdigit()))):
                        ok = False
                        break
                    cols.append([int(t[1:]), None if f is None else int(f[1:])])
                if ok:
                    out.append(["H", parts[1].lower(), cols])
                    i += 2
                    continue
            out.append(["B", ln])
            i += 1
            continue
        try:
            t = float(parts[0]) / DT
            if t != int(t):
                raise ValueError
            cells = [parse_cell(c) for c in parts[1:]]
            if any(isinstance(c, dict) and "raw" in c for c in cells):
                raise ValueError
            out.append(["R", int(t), cells])
        except ValueError:
            out.append(["B", ln])
        i += 1
    return out


def run_case(case, workdir):
    from ioflo.base import logging, globaling
    from ioflo.aid.odicting import odict
    house = _mk()
    store = house.store
    store.changeStamp(0.0)
    prefix = os.path.join(workdir, "lg")
    shutil.rmtree(prefix, ignore_errors=True)
    logger = logging.Logger(name="L", store=store, schedule=globaling.ACTIVE, prefix=prefix, reuse=True)
    shares = []
    for i, sh in enumerate(case["shares"]):
        s = store.create("c22.s%d" % i)
        kv = [("f%d" % k, mk_val(v)) for k, v in sh["data"]]
        if sh.get("stamped"):
            s.update(kv)
        else:
            s.change(kv)
        shares.append(s)
    rule = globaling.LogRuleValues[case["rule"].capitalize()]
    log = logging.Log(name="lg", store=store, kind="text", baseFilename="", rule=rule)
    for tag, si, fields in case["loggees"]:
        log.addLoggee(tag="t%d" % tag, loggee="c22.s%d" % si, fields=["f%d" % k for k in fields])
    logger.addLog(log)
    logger.resolve()
    if case.get("pre") is not None:
        d = os.path.join(prefix, house.name, logger.name)
        os.makedirs(d)
        with open(os.path.join(d, "lg.txt"), "w") as f:
            f.write(case["pre"])
    tick = 0
    for op in case["ops"]:
        o = op[0]
        if o == "tick":
            store.advanceStamp(DT)
            tick += 1
        elif o == "write":
            shares[op[1]].update([("f%d" % k, list(v) if isinstance(v, list) else v) for k, v in op[2]])
        elif o == "change":
            shares[op[1]].change([("f%d" % k, list(v) if isinstance(v, list) else v) for k, v in op[2]])
        elif o == "push":
            e = op[2]
            if "m" in e:        # a mapping: odict, or a plain dict when e["plain"]
                items = [("f%d" % k, v) for k, v in e["m"]]
                shares[op[1]].push(dict(items) if e.get("plain") else odict(items))
            else:               # not a mapping: None | int | str | list of ints, pushed as is
                shares[op[1]].push(list(e["o"]) if isinstance(e["o"], list) else e["o"])
        elif o == "append":
            v = shares[op[1]].get("f%d" % op[2])
            if isinstance(v, (list, collections.deque)):     # (the model's Append is a no-op otherwise)
                v.append(op[3])
        elif o == "put":
            v = shares[op[1]].get("f%d" % op[2])
            if isinstance(v, dict):         # (the model's Put is a no-op on anything but a mapping)
                v[op[3]] = op[4]
        elif o == "run":
            logger.runner.send(globaling.RUN)
        elif o == "start":
            logger.runner.send(globaling.START)
        elif o == "stop":
            logger.runner.send(globaling.STOP)
        else:
            raise ValueError(o)
    logger.close()
    text = open(log.path).read() if log.path and os.path.exists(log.path) else None
    res = {"file": None if text is None else parse_file(text), "shares": []}
    for s in shares:
        data = []
        for k in s.keys():
            v = s[k]
            data.append([int(k[1:]), un_val(v)])
        deck = []
        for e in s.deck:
            if isinstance(e, collections.abc.Mapping):
                deck.append({"m": [[int(k[1:]), v] for k, v in e.items()]})
            else:
                deck.append({"o": e})
        res["shares"].append({"data": data, "stamp": None if s.stamp is None else int(s.stamp / DT),
                              "deck": deck})
    shutil.rmtree(prefix, ignore_errors=True)
    return res


if __name__ == "__main__":
    import json, sys
    case = json.load(sys.stdin)
    print(json.dumps(run_case(case, os.getcwd())))
