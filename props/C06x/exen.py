"""
C06x -- T-tie for the pure static methods framing.Framer.ExEn / Framer.Uncommon.

    gen(ctx)         regenerate coq/gen/Framing.v from the CURRENT ioflo/base/framing.py with the
                     C40 translator (fail-closed; frames -> nat ids, `is` -> Nat.eqb, far.outline ->
                     the extra argument far_outline).  Returns True on success.
    check_exen(ctx)  gen + ctx.coq_build("C06x/Props.v")  (gen_ExEn = kernel model's exen, for all
                     lists; gen_Uncommon = uncommon) + correspondence of the generated functions
                     against the real Framer.ExEn / Framer.Uncommon on stub frame objects
                     (exhaustive small lists over 4 ids + random) + the implementation alone against
                     the executable spec.  Broken ties are recorded with ctx.tie_broken; it does NOT
                     call ctx.settle.  Returns None, or a finding dict (key, input, observed, expected,
                     contradicts) = a concrete (nears, fars, far) on which the IMPLEMENTATION fails
                     the spec -- to be returned by the caller's `search` passed to ctx.settle.

Not a property of its own: called from props/C06/check.py.
"""
import itertools
import os
import sys

_here = os.path.dirname(os.path.abspath(__file__))
sys.path.insert(0, os.path.join(_here, "..", "C40"))
import translate  # noqa: E402

FRAMING = {
    "Framer.ExEn": dict(
        coq_name="gen_ExEn", staticmethod=True,
        params=[("nears", "list_frame"), ("far", "frame")],
        # far.outline is passed in as the extra argument far_outline (placed just before far)
        attrs={("far", "outline"): ("far_outline", "list_frame")},
        ret="tuple(list_frame,list_frame,list_frame)"),
    "Framer.Uncommon": dict(
        coq_name="gen_Uncommon", staticmethod=True,
        params=[("near", "list_frame"), ("far", "list_frame")],
        ret="tuple(list_frame,list_frame)"),
}

HEADER = """From Coq Require Import ZArith List Bool.
Import ListNotations.
Require Import V.Lib.C40_PyRt V.gen.Framing.
Fixpoint ln_eqb (a b : list nat) := match a, b with [] , [] => true | x :: a', y :: b' => Nat.eqb x y && ln_eqb a' b' | _, _ => false end.
Fixpoint ll_eqb (a b : list (list nat)) := match a, b with [], [] => true | x :: a', y :: b' => ln_eqb x y && ll_eqb a' b' | _, _ => false end.
Definition f3 (r : res (list nat * list nat * list nat)) : option (list (list nat)) :=
  match r with Ok (a, b, c) => Some [a; b; c] | Err _ => None end.
Definition f2 (r : res (list nat * list nat)) : option (list (list nat)) :=
  match r with Ok (a, b) => Some [a; b] | Err _ => None end.
Definition cmp (model impl : option (list (list nat))) : bool :=
  match model, impl with Some a, Some b => ll_eqb a b | None, None => true | _, _ => false end.
"""


def gen(ctx):
    src = os.path.join(ctx.repo, "ioflo", "base", "framing.py")
    try:
        text, _ = translate.translate_module(open(src).read(), FRAMING, "Framing", "ioflo/base/framing.py")
    except (translate.Unsupported, SyntaxError, KeyError) as ex:
        ctx.tie_broken("translator", "Framer.ExEn/Uncommon are outside the translated fragment", repr(ex))
        return False
    bad = translate.selftest()
    if bad:
        ctx.tie_broken("translator", "translator self-test", "; ".join(bad))
        return False
    ctx.write_gen("Framing.v", text)
    return True


# ---- stub frames ---------------------------------------------------------------------------------
class Stub(object):
    """a frame stand-in: identity is all that ExEn/Uncommon look at, plus far.outline.
    Like ioflo's Frame it does not define __eq__ (== is identity)."""
    __slots__ = ("fid", "outline")

    def __init__(self, fid):
        self.fid = fid
        self.outline = []



def impl_exen(Framer, nears, fars, far):
    """run the real Framer.ExEn on stubs; ids -> ('ok', [ex, en, re]) | ('err', cls)"""
    ids = sorted(set(nears) | set(fars) | {far})
    objs = dict((i, Stub(i)) for i in ids)
    objs[far].outline = [objs[i] for i in fars]
    try:
        r = Framer.ExEn([objs[i] for i in nears], objs[far])
        return ("ok", [[o.fid for o in part] for part in r])
    except Exception as ex:  # noqa
        return ("err", type(ex).__name__)


def impl_uncommon(Framer, near, far):
    ids = sorted(set(near) | set(far))
    objs = dict((i, Stub(i)) for i in ids)
    try:
        r = Framer.Uncommon([objs[i] for i in near], [objs[i] for i in far])
        return ("ok", [[o.fid for o in part] for part in r])
    except Exception as ex:  # noqa
        return ("err", type(ex).__name__)


# ---- executable spec (the kernel model's exen / C06x uncommon, transliterated) ---------------------
def spec_exen(nears, fars, far, acc=()):
    if nears and fars:
        n, f = nears[0], fars[0]
        if n == far or n != f:
            return [list(nears), list(fars), list(acc)]
        return spec_exen(nears[1:], fars[1:], far, tuple(acc) + (n,))
    return [[], [], list(acc) + list(nears)]


def spec_uncommon(near, far):
    if near and far:
        if near[0] != far[0]:
            return [list(near), list(far)]
        return spec_uncommon(near[1:], far[1:])
    return [[], []]


def statement(Framer, nears, fars, far):
    """implementation alone vs the spec; finding dict or None"""
    got = impl_exen(Framer, nears, fars, far)
    want = spec_exen(list(nears), list(fars), far)
    if got != ("ok", want):
        return {"key": "framer-exen", "nears": list(nears), "fars": list(fars), "far": far,
                "observed": got[1], "expected": want, "what": "Framer.ExEn(nears, far) with far.outline = fars",
                "contradicts": "C06x.Props.gen_ExEn_is_exen"}
    # the properties the kernel proofs use (exen_correct / exen_partition), checked directly
    ex, en, re = want
    k = len(re) if (ex or en) else None
    if k is not None and not (list(nears[:k]) == list(fars[:k]) == re and far not in re
                              and ex == list(nears[k:]) and en == list(fars[k:])):
        return {"key": "framer-exen-spec", "nears": list(nears), "fars": list(fars), "far": far,
                "observed": want, "expected": "common prefix / suffixes", "contradicts": "Kernel.ExEnProofs.exen_correct"}
    gu = impl_uncommon(Framer, nears, fars)
    wu = spec_uncommon(list(nears), list(fars))
    if gu != ("ok", wu):
        return {"key": "framer-uncommon", "near": list(nears), "far": list(fars), "observed": gu[1], "expected": wu,
                "what": "Framer.Uncommon(near, far)", "contradicts": "C06x.Props.gen_Uncommon_is_uncommon"}
    return None


def all_lists(ids, maxlen):
    for ln in range(maxlen + 1):
        for t in itertools.product(ids, repeat=ln):
            yield list(t)


def search(ctx, Framer):
    """smallest inputs first; returns (finding or None, number of checks)"""
    n = 0
    ids = [1, 2, 3, 4]
    for maxlen in (0, 1, 2, 3):
        ls = list(all_lists(ids, maxlen))
        for nears in ls:
            for fars in ls:
                if max(len(nears), len(fars)) < maxlen:
                    continue            # already covered by a smaller scope
                for far in ids:
                    n += 1
                    f = statement(Framer, nears, fars, far)
                    if f:
                        return f, n
    rng = ctx.rng
    for _ in range(ctx.n(2000, 20000)):
        m = rng.randint(2, 7)
        base = [rng.randint(1, m) for _ in range(rng.randint(0, 9))]
        cut = rng.randint(0, len(base))
        nears = base[:cut] + [rng.randint(1, m) for _ in range(rng.randint(0, 4))]
        fars = base[:rng.randint(0, len(base))] + [rng.randint(1, m) for _ in range(rng.randint(0, 4))]
        far = rng.choice(fars + nears + [m]) if rng.random() < 0.8 else rng.randint(1, m + 1)
        n += 1
        f = statement(Framer, nears, fars, far)
        if f:
            return f, n
    return None, n


def cln(l):
    return "[" + "; ".join("%d%%nat" % x for x in l) + "]" if l else "(@nil nat)"


def clit(r):
    if r[0] != "ok":
        return "None"
    return "(Some [" + "; ".join(cln(p) for p in r[1]) + "])"


def check_exen(ctx):
    """see module docstring.  Returns None or a finding dict (implementation fails the spec)."""
    from ioflo.base.framing import Framer
    before = len(ctx.broken)
    ok = gen(ctx)
    if ok:
        ctx.coq_build("C06x/Props.v")
    rng = ctx.rng
    cases, metas = [], []

    def add_exen(nears, fars, far, kind):
        r = impl_exen(Framer, nears, fars, far)
        cases.append(("f3 (gen_ExEn %s %s %d%%nat)" % (cln(nears), cln(fars), far), clit(r)))
        metas.append(("ExEn", nears, fars, far, r))
        ctx.case({"fn": "ExEn", "nears": nears, "fars": fars, "far": far, "out": r[1]},
                 nontrivial=bool(nears) and bool(fars), kind="exen:" + kind)

    def add_unc(near, far, kind):
        r = impl_uncommon(Framer, near, far)
        cases.append(("f2 (gen_Uncommon %s %s)" % (cln(near), cln(far)), clit(r)))
        metas.append(("Uncommon", near, far, None, r))
        ctx.case({"fn": "Uncommon", "near": near, "far": far, "out": r[1]},
                 nontrivial=bool(near) and bool(far), kind="uncommon:" + kind)

    ids = [1, 2, 3, 4]
    small = list(all_lists(ids, ctx.n(2, 3)))
    for nears in small:
        for fars in small:
            add_unc(nears, fars, "exhaustive")
            for far in ids:
                if ctx.thorough or len(nears) + len(fars) <= 3 or rng.random() < 0.35:
                    add_exen(nears, fars, far, "exhaustive")
    for _ in range(ctx.n(300, 3000)):
        m = rng.randint(2, 7)
        base = [rng.randint(1, m) for _ in range(rng.randint(0, 9))]
        nears = base[:rng.randint(0, len(base))] + [rng.randint(1, m) for _ in range(rng.randint(0, 4))]
        fars = base[:rng.randint(0, len(base))] + [rng.randint(1, m) for _ in range(rng.randint(0, 4))]
        far = rng.choice(fars + nears + [m]) if rng.random() < 0.8 else rng.randint(1, m + 1)
        add_exen(nears, fars, far, "random")
        add_unc(nears, fars, "random")
    if ok:
        bad = ctx.coq_cases(HEADER, "cmp", cases, shard=ctx.n(400, 1500), name="exen")
        for i in bad[:5]:
            fn, a, b, far, r = metas[i]
            ctx.tie_broken("correspondence", "generated gen_%s vs Framer.%s" % (fn, fn),
                           "args=%r %r far=%r implementation=%r model=%s" % (a, b, far, r, cases[i][0]))
        ctx.extra["exen_mismatches"] = len(bad)
    found, n = search(ctx, Framer)
    ctx.extra["exen_statement_checks"] = n
    if found is not None and len(ctx.broken) == before:
        ctx.tie_broken("statement", found["contradicts"], "Framer.ExEn/Uncommon fail the executable spec: %r" % found)
    return found
