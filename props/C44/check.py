"""
C44 -- point-in-polygon predicates agree with exact geometry.

Tie T: coq/gen/Vectoring.v is regenerated on every run from ioflo/aid/vectoring.py by
props/C43/translate.py (sub, dot, mag2, trip, cw, ccw, tween2, wind, inside, insideOnly, outside,
outsideOnly, sideOnly over Z*Z; loops as py_for_range with early return).
  theorems       : coq/C44/Props.v -- general (all points, all vertex lists) + the bounded
                   exhaustive theorem against the independent Coq oracle of coq/C44/Model.v
  correspondence : (a) translator validation: real functions vs generated functions on small-grid
                   exhaustive + seeded random polygons (simple or not), compared inside Coq;
                   (b) the real functions vs an exact integer oracle (Python twin of the Coq oracle)
                   on every SIMPLE polygon of the run -- this is the property's executable statement.
"""
import importlib.util
import itertools
import os

LEVEL = "proof"
HERE = os.path.dirname(os.path.abspath(__file__))


def _load(name, path):
    spec = importlib.util.spec_from_file_location(name, path)
    mod = importlib.util.module_from_spec(spec)
    spec.loader.exec_module(mod)
    return mod


translate = _load("c43_translate", os.path.join(HERE, "..", "C43", "translate.py"))
harness = _load("c43_harness", os.path.join(HERE, "..", "C43", "harness.py"))


def gen(ctx):
    path = os.path.join(ctx.repo, "ioflo", "aid", "vectoring.py")
    try:
        text, notes = translate.gen_vectoring(open(path).read())
    except (translate.Untranslatable, SyntaxError, OSError) as ex:
        ctx.tie_broken("translator", "ioflo/aid/vectoring.py", "%s: %s" % (type(ex).__name__, ex))
        return False
    ctx.write_gen("Vectoring.v", text)
    ctx.trusted.append("translator props/C43/translate.py (dialect Z: ints as Z, 2-tuples as Z*Z, sequences of "
                       "points as lists; notes: %s)" % "; ".join(notes))
    return True


# ----------------------------------------------------------------------------------------------
# exact oracle (integers only) -- Python twin of coq/C44/Model.v section 2
# ----------------------------------------------------------------------------------------------

def orient(a, b, c):
    return (b[0] - a[0]) * (c[1] - a[1]) - (b[1] - a[1]) * (c[0] - a[0])


def on_seg(p, a, b):
    return (orient(a, b, p) == 0 and min(a[0], b[0]) <= p[0] <= max(a[0], b[0]) and
            min(a[1], b[1]) <= p[1] <= max(a[1], b[1]))


def sgn(x):
    return (x > 0) - (x < 0)


def seg_meet(a, b, c, d):
    d1, d2, d3, d4 = sgn(orient(a, b, c)), sgn(orient(a, b, d)), sgn(orient(c, d, a)), sgn(orient(c, d, b))
    return ((d1 * d2 < 0 and d3 * d4 < 0) or on_seg(c, a, b) or on_seg(d, a, b) or
            on_seg(a, c, d) or on_seg(b, c, d))


def edges(vs):
    return [(vs[i], vs[(i + 1) % len(vs)]) for i in range(len(vs))]


def is_simple(vs):
    n = len(vs)
    if n < 3 or len(set(vs)) != n:
        return False
    es = edges(vs)
    for i in range(n):
        a, b = es[i]
        for j in range(i + 1, n):
            c, d = es[j]
            if j == i + 1:
                if on_seg(a, c, d) or on_seg(d, a, b):
                    return False
            elif i == 0 and j == n - 1:
                if on_seg(b, c, d) or on_seg(c, a, b):
                    return False
            elif seg_meet(a, b, c, d):
                return False
    return True


def oracle(p, vs):
    """(on_boundary, strictly_inside) by exact integer arithmetic; even-odd rule along the ray
    p + t*(1, K) with K larger than every coordinate difference, so no lattice vertex is on it"""
    es = edges(vs)
    if any(on_seg(p, a, b) for a, b in es):
        return True, False
    ys = [v[1] for v in vs] + [p[1]]
    K = max(ys) - min(ys) + 1
    q = (p[0] + 1, p[1] + K)
    par = False
    for a, b in es:
        sa, sb = orient(p, q, a), orient(p, q, b)
        assert sa != 0 and sb != 0, "oracle ray hit a vertex"
        if sa * sb < 0:
            oa = orient(a, b, p)
            cr = (b[0] - a[0]) * K - (b[1] - a[1])
            if oa * cr < 0:
                par = not par
    return False, par


def expected(p, vs):
    """the property: what the 8 observations must be for a simple polygon"""
    ob, oi = oracle(p, vs)
    return {"sideOnly": ob, "insideOnly": (not ob) and oi, "outsideOnly": (not ob) and (not oi),
            "inside(side=True)": ob or oi, "inside(side=False)": (not ob) and oi,
            "outside(side=True)": ob or (not oi), "outside(side=False)": (not ob) and (not oi),
            "wind==0": ob or (not oi)}


SCRATCH = []   # one long-lived list object whose CONTENTS are replaced polygon after polygon


def observe(vec, p, vs):
    """every predicate is called with a fresh short-lived copy of the vertex list (so object identities are
    recycled from polygon to polygon) and again with one long-lived list edited in place: the answers are a
    function of the VALUES p and vs only, not of object identity or of earlier calls"""
    w = vec.wind(p, list(vs))
    obs = {"sideOnly": vec.sideOnly(p, list(vs)), "insideOnly": vec.insideOnly(p, list(vs)),
           "outsideOnly": vec.outsideOnly(p, list(vs)),
           "inside(side=True)": vec.inside(p, list(vs), True), "inside(side=False)": vec.inside(p, list(vs), False),
           "outside(side=True)": vec.outside(p, list(vs), True), "outside(side=False)": vec.outside(p, list(vs), False),
           "wind==0": w == 0}
    SCRATCH[:] = vs
    w2 = vec.wind(p, SCRATCH)
    obs2 = {"sideOnly": vec.sideOnly(p, SCRATCH), "insideOnly": vec.insideOnly(p, SCRATCH),
            "outsideOnly": vec.outsideOnly(p, SCRATCH),
            "inside(side=True)": vec.inside(p, SCRATCH, True), "inside(side=False)": vec.inside(p, SCRATCH, False),
            "outside(side=True)": vec.outside(p, SCRATCH, True), "outside(side=False)": vec.outside(p, SCRATCH, False),
            "wind==0": w2 == 0}
    if obs2 != obs or w2 != w:
        # report the in-place answers: the exact oracle / the model comparison below then flags them
        return obs2, w2
    return obs, w


ORDER = ["sideOnly", "insideOnly", "outsideOnly", "inside(side=True)", "inside(side=False)",
         "outside(side=True)", "outside(side=False)"]


def code(obs, w):
    c = 0
    for k, nm in enumerate(ORDER):
        if obs[nm] is True:
            c |= 1 << k
        elif obs[nm] is not False:
            raise TypeError("predicate %s returned %r" % (nm, obs[nm]))
    if not isinstance(w, int) or isinstance(w, bool) or abs(w) > 15:
        raise TypeError("wind returned %r" % (w,))
    return c * 32 + (w + 16)


def packpt(p):
    return (p[0] + 64) * 128 + (p[1] + 64)


NV, NP = 8, 16

HEADER = """From Coq Require Import ZArith List Bool.
Import ListNotations.
Require Import V.Lib.C43_PyPrelude V.gen.Vectoring.
Open Scope Z_scope.
Definition c44_pt (z : Z) : pt := (z / 128 - 64, z mod 128 - 64).
Definition c44_b (k : Z) (b : bool) : Z := if b then 2 ^ k else 0.
Definition c44_code (p : pt) (vs : list pt) : Z :=
  (c44_b 0 (sideOnly p vs) + c44_b 1 (insideOnly p vs) + c44_b 2 (outsideOnly p vs) +
   c44_b 3 (inside p vs true) + c44_b 4 (inside p vs false) +
   c44_b 5 (outside p vs true) + c44_b 6 (outside p vs false)) * 32 + (wind p vs + 16).
Definition c44_chk (r : list Z) : bool := match r with
  | n :: rest =>
    let vs := map c44_pt (firstn (Z.to_nat n) rest) in
    forallb (fun q => c44_code (c44_pt (q / 4096)) vs =? q mod 4096) (skipn 8 rest)
  | [] => false end.
"""


def polygons(ctx):
    """(kind, vs) -- vertex lists, simple or not"""
    out = []
    g3 = [(x, y) for x in range(3) for y in range(3)]
    g4 = [(x, y) for x in range(4) for y in range(4)]
    for vs in itertools.permutations(g3, 3):
        out.append(("3x3-tri", list(vs)))
    quads = list(itertools.permutations(g3, 4))
    if not ctx.thorough:
        quads = ctx.rng.sample(quads, 800)
    for vs in quads:
        out.append(("3x3-quad", list(vs)))
    for n, k in ((3, ctx.n(300, 3360)), (4, ctx.n(400, 12000)), (5, ctx.n(500, 20000))):
        allp = None
        if n == 3 and ctx.thorough:
            allp = list(itertools.permutations(g4, 3))
        for i in range(k):
            vs = list(allp[i]) if allp else ctx.rng.sample(g4, n)
            out.append(("4x4-%dgon" % n, vs))
    # degenerate: repeated vertices, collinear, 0/1/2 vertices
    for vs in ([], [(1, 1)], [(0, 0), (2, 2)], [(0, 0), (2, 0), (4, 0)], [(0, 0), (2, 0), (2, 0), (0, 2)],
               [(0, 0), (0, 0), (0, 0)], [(0, 0), (3, 0), (3, 3), (0, 3), (0, 0)]):
        out.append(("degenerate", vs))
    # long edges (extent 22..60): every lattice point of such an edge must be classified as boundary; inexact
    # (floating point) collinearity tests only start to fail at this size
    from math import gcd
    dirs = [(dx, dy) for dx in range(0, 8) for dy in range(-7, 8)
            if (dx, dy) != (0, 0) and gcd(dx, abs(dy)) == 1 and not (dx == 0 and dy < 0)]
    for _ in range(ctx.n(80, 1500)):
        dx, dy = ctx.rng.choice(dirs)
        ext = max(abs(dx), abs(dy))
        m = ctx.rng.randint((22 + ext - 1) // ext, 60 // ext)
        ox, oy = ctx.rng.randint(-2, 2), ctx.rng.randint(-2, 2)
        if dy < 0:
            oy += 60                   # keep every coordinate inside [-2, 62]
        u, v = (ox, oy), (ox + m * dx, oy + m * dy)
        t = ctx.rng.randint(1, 3)
        w = (u[0] - t * dy, u[1] + t * dx)
        if not all(-60 <= c <= 63 for q in (u, v, w) for c in q):
            continue
        vs = [u, v, w] if ctx.rng.random() < 0.5 else [w, v, u]
        out.append(("long-edge", vs))
    # random larger polygons: star-shaped (simple by construction unless collinear) and arbitrary
    import math
    for _ in range(ctx.n(500, 6000)):
        n = ctx.rng.randint(3, NV)
        if ctx.rng.random() < 0.6:
            angs = sorted(ctx.rng.uniform(0, 2 * math.pi) for _ in range(n))
            vs = []
            for a in angs:
                r = ctx.rng.uniform(3, 20)
                vs.append((int(round(r * math.cos(a))), int(round(r * math.sin(a)))))
            if ctx.rng.random() < 0.5:
                vs.reverse()
            out.append(("random-star", vs))
        else:
            R = ctx.rng.choice([3, 6, 20])
            out.append(("random-any", [(ctx.rng.randint(-R, R), ctx.rng.randint(-R, R)) for _ in range(n)]))
    return out


def sample_points(ctx, kind, vs):
    if kind.startswith("3x3"):
        return [(x, y) for x in range(-1, 3) for y in range(-1, 3)]
    if kind.startswith("4x4"):
        return [(x, y) for x in range(4) for y in range(4)]
    if kind.startswith("long-edge"):
        from math import gcd
        u, v = vs[0], vs[1]
        if max(abs(vs[2][0] - vs[1][0]), abs(vs[2][1] - vs[1][1])) > max(abs(v[0] - u[0]), abs(v[1] - u[1])):
            u, v = vs[2], vs[1]
        m = gcd(abs(v[0] - u[0]), abs(v[1] - u[1]))
        dx, dy = (v[0] - u[0]) // m, (v[1] - u[1]) // m
        js = ctx.rng.sample(range(m + 1), min(12, m + 1))
        pts = [(u[0] + j * dx, u[1] + j * dy) for j in js]
        pts += [(u[0] - dx, u[1] - dy), (u[0] + (m + 1) * dx, u[1] + (m + 1) * dy),
                (u[0] + dx + 1, u[1] + dy), (u[0] + dx, u[1] + dy + 1)]
        pts = [q for q in pts if all(-64 <= c <= 63 for c in q)]
        while len(pts) < NP:
            j = ctx.rng.randint(0, m)
            pts.append((u[0] + j * dx, u[1] + j * dy))
        return pts[:NP]
    pts = list(vs[:6])
    for i in range(len(vs)):
        a, b = vs[i], vs[(i + 1) % len(vs)]
        if (a[0] + b[0]) % 2 == 0 and (a[1] + b[1]) % 2 == 0:
            pts.append(((a[0] + b[0]) // 2, (a[1] + b[1]) // 2))
    if vs:
        pts.append((max(v[0] for v in vs) + 1, vs[0][1]))       # on the ray level of a vertex, outside
        pts.append((min(v[0] for v in vs) - 1, vs[-1][1]))
    while len(pts) < NP:
        R = max([abs(c) for v in vs for c in v] + [2])
        pts.append((ctx.rng.randint(-R, R), ctx.rng.randint(-R, R)))
    return pts[:NP]


def segment_sweep(ctx, vec):
    """implementation alone: tween2(p, u, v) against `cross == 0 and p in the bounding box`, for every primitive
    direction with |dx|,|dy| <= 7 (thorough: 12), every multiple with extent <= 60 (so extents >= 22 are swept,
    where a floating point collinearity test first goes wrong), every lattice point of the segment and the
    neighbouring off-segment points.  A disagreement is then shown on a triangle having that segment as an edge."""
    from math import gcd
    D = ctx.n(7, 12)
    bad = []
    for dx in range(0, D + 1):
        for dy in range(-D, D + 1):
            if (dx, dy) == (0, 0) or gcd(dx, abs(dy)) != 1 or (dx == 0 and dy < 0):
                continue
            ext = max(abs(dx), abs(dy))
            for m in range(1, 60 // ext + 1):
                for u in ((0, 0), (-3, 5)):
                    v = (u[0] + m * dx, u[1] + m * dy)
                    cand = [(u[0] + j * dx, u[1] + j * dy) for j in range(-1, m + 2)]
                    cand += [(u[0] + j * dx + 1, u[1] + j * dy) for j in (0, m // 2, m)]
                    ctx.case({"seg": [u, v], "points": len(cand)}, nontrivial=False, kind="segment-sweep")
                    for p in cand:
                        want = on_seg(p, u, v)
                        try:
                            got = vec.tween2(p, u, v)
                        except Exception as ex:
                            got = "%s: %s" % (type(ex).__name__, ex)
                        if got is not want:
                            bad.append((ext * m, p, u, v, got, want))
    out = []
    for _, p, u, v, got, want in sorted(bad)[:3]:
        w = (u[0] - (v[1] - u[1]) // max(1, gcd(abs(v[0] - u[0]), abs(v[1] - u[1]))),
             u[1] + (v[0] - u[0]) // max(1, gcd(abs(v[0] - u[0]), abs(v[1] - u[1]))))
        vs = [u, v, w]
        d = {"p": p, "vs": vs, "segment": [u, v], "tween2": got, "exact_on_segment": want,
             "why": "tween2 disagrees with exact integer geometry (cross product = 0 and inside the bounding box)"}
        try:
            obs, wn = observe(vec, p, vs)
            exp = expected(p, vs)
            d.update({"observed": obs, "wind": wn, "expected": exp,
                      "differs": sorted(k for k in exp if bool(obs[k]) != exp[k])})
        except Exception as ex:
            d["predicates_raised"] = "%s: %s" % (type(ex).__name__, ex)
        out.append(d)
    ctx.extra["segment_sweep_disagreements"] = len(bad)
    return out


def run(ctx):
    ctx.rule = ("vertex lists (all triangles + quads on the 3x3 grid, sampled/all 3-5-gons on the 4x4 grid, degenerate "
                "lists, triangles with one long edge (extent 22..60, lattice points of the edge as sample points), random "
                "star-shaped and arbitrary polygons with <= 8 vertices, |coord| <= 20) x 16 points each "
                "(whole grid; or vertices, integer edge midpoints, ray-level points, random points). One case = one "
                "(polygon, 16 points) row: the 7 predicates + wind of the real functions vs the generated functions "
                "(vm_compute), and vs the exact integer oracle when the polygon is simple. non-trivial = simple polygon "
                "with at least one strictly-inside, one boundary and one outside sample point. Plus a segment sweep on the "
                "implementation alone: tween2 vs exact integer on-segment for all primitive directions (|d| <= 7, "
                "thorough 12) x all multiples up to extent 60 x all lattice points of the segment and neighbours")
    ctx.assumptions = [
        "points are 2-tuples of Python ints, polygons are lists of such tuples (the translator's type table)",
        "no Jordan-curve theorem: agreement with exact geometry for ARBITRARY simple polygons is proved only up to "
        "the stated bound (<=5 vertices on 4x4, <=4 on 5x5) and sampled beyond it",
    ]
    from ioflo.aid import vectoring as vec

    ok = gen(ctx)
    sh = harness.shadowed_builtins(vec)
    if sh or getattr(vec, "left", None) is not vec.ccw or getattr(vec, "right", None) is not vec.cw:
        ctx.tie_broken("translator", "builtins rebound / left-right aliases changed in ioflo.aid.vectoring", repr(sh))
    if ok:
        ctx.coq_build("C44/Props.v", timeout=2400)
        # the bounded theorem is a large kernel VM computation; coqchk has no VM and cannot re-check it
        # within its time limit, so the thorough-tier coqchk pass covers Props.v only
        prev = os.environ.get("VERIF_NO_COQCHK")
        os.environ["VERIF_NO_COQCHK"] = "1"
        try:
            ctx.coq_build("C44/PropsBounded.v", timeout=2400)
        finally:
            if prev is None:
                os.environ.pop("VERIF_NO_COQCHK", None)
            else:
                os.environ["VERIF_NO_COQCHK"] = prev
        ctx.trusted.append("coqchk is not run on C44/PropsBounded.v (bounded exhaustive theorem: VM computation, "
                           "checked by the coqc kernel only)")

    rows, metas, viol = [], [], []
    for kind, vs in polygons(ctx):
        pts = sample_points(ctx, kind, vs)
        simple = is_simple(vs)
        seen = set()
        row = [len(vs)] + [packpt(v) for v in vs] + [0] * (NV - len(vs))
        good = True
        for p in pts:
            try:
                obs, w = observe(vec, p, vs)
                c = code(obs, w)
            except Exception as ex:
                ctx.tie_broken("correspondence", "vectoring predicates raised / returned a non-bool",
                               "p=%r vs=%r: %s: %s" % (p, vs, type(ex).__name__, ex))
                viol.append({"p": p, "vs": vs, "why": "%s: %s" % (type(ex).__name__, ex)})
                good = False
                break
            row.append(packpt(p) * 4096 + c)
            if simple:
                exp = expected(p, vs)
                seen.add("b" if exp["sideOnly"] else ("i" if exp["insideOnly"] else "o"))
                diff = sorted(k for k in exp if bool(obs[k]) != exp[k])
                if diff:
                    viol.append({"p": p, "vs": vs, "differs": diff, "observed": obs, "wind": w, "expected": exp})
        ctx.case({"vs": vs, "pts": pts[:4]}, nontrivial=simple and seen == {"b", "i", "o"},
                 kind=kind + ("/simple" if simple else "/non-simple"))
        if good:
            rows.append(row)
            metas.append((vs, pts))
    for v in segment_sweep(ctx, vec):
        viol.append(v)
    if viol:
        v = min(viol, key=lambda d: (len(d["vs"]), sum(abs(c) for q in d["vs"] for c in q)))
        ctx.tie_broken("correspondence", "vectoring predicates vs exact oracle on a simple polygon", repr(v))
    ctx.extra["oracle_disagreements"] = len(viol)

    if ok and rows:
        try:
            bad = harness.flat_cases(ctx, HEADER, "c44_chk", rows, 1 + NV + NP, shard=ctx.n(260, 400))
        except RuntimeError as ex:
            bad = []
            ctx.tie_broken("correspondence", "coq evaluation of generated Vectoring.v failed", str(ex))
        for i in bad[:5]:
            ctx.tie_broken("correspondence", "generated Vectoring.v vs ioflo.aid.vectoring",
                           "vs=%r points=%r" % metas[i])
        ctx.extra["mismatches"] = len(bad)
    ctx.exhaustive = False

    def search():
        if not viol:
            return None
        v = dict(min(viol, key=lambda d: (len(d["vs"]), sum(abs(c) for q in d["vs"] for c in q))))
        v["contradicts"] = "C44.Props.small_polygons_exact / predicate_algebra (exact oracle)"
        v["key"] = "pip-oracle"
        return v

    ctx.settle(search)
