"""C10 -- kernel property (see coq/C10/Props.v, coq/Kernel/*.v, lib/kernel.py, lib/kprops.py)."""
import kprops

LEVEL = "proof"
RUNS = [{'label': 'cond', 'quick': 60, 'thorough': 600, 'features': {'slave': False, 'bid': False}, 'ticks': (0.125, 0.1), 'crash': 'none'}]


def run(ctx):
    import json, os
    corpus = [(c["prog"], c["crash_at"]) for c in json.load(open(os.path.join(os.path.dirname(__file__), "..", "C06", "corpus.json")))]
    for r in RUNS:
        r["ticks"] = tuple(r["ticks"])
    kprops.kernel_check(ctx, "C10", runs=RUNS, preds=['C10', 'C05s', 'C09r', 'C06', 'C05'], corpus=corpus,
                        rule='random kernel programs with conditional auxiliaries at different depths whose conditions toggle at arbitrary ticks, auxiliaries that complete immediately, later or never, and transitions that leave the main frame; traces (incl. the truncated active outline after every send) compared with the Coq model. Corpus replays the open finding. Non-trivial = outline change and > 6 events')
