"""C11 extra check: the timeout / repeat verbs inside CLONED moot framers (the kernel language of
lib/kernel.py has no clones).  Implementation-only executable statement on directed scripts built by the
real Builder and run by the real Skedder: every clone leaves its `timeout T` frame at the first evaluation
of its transitions at which ITS OWN elapsed time is >= T, and its `repeat N` frame at the first evaluation
at which ITS OWN recurred count is >= N, and an un-cloned framer with the same frames does the same at the
same stamps (a clone runs like its original)."""
import os


def script(tick, T, N, nclones, nested):
    L = ["house h", ""]
    L += ["  framer boss be active first hold",
          "    frame hold"]
    for i in range(nclones):
        L.append("      aux worker as w%d" % i)
    L += ["      go finish if all is done",
          "      go giveup if elapsed >= %r" % (T + (N + 6) * tick + 2.0),
          "    frame finish",
          "      bid stop all",
          "    frame giveup",
          "      bid stop all", ""]
    L += ["  framer plain be active first A",
          "    frame A",
          "      timeout %r" % T,
          "    frame B",
          "      repeat %d" % N,
          "    frame C", ""]
    L += ["  framer worker be moot first A",
          "    frame A"]
    if nested:
        L.append("      aux inner as mine")
    L += ["      timeout %r" % T,
          "    frame B",
          "      repeat %d" % N,
          "    frame C",
          "      done", ""]
    if nested:
        L += ["  framer inner be moot first A",
              "    frame A",
              "      repeat %d" % (N + 1),
              "    frame B",
              "      timeout %r" % T,
              "    frame C",
              "      done", ""]
    return "\n".join(L) + "\n"


def run_one(ctx, tick, T, N, nclones, nested, name):
    from ioflo.aid.consoling import getConsole
    getConsole().reinit(verbosity=0)
    from ioflo.base import skedding, housing, framing
    flo = script(tick, T, N, nclones, nested)
    path = os.path.join(ctx.work, name + ".flo")
    with open(path, "w") as f:
        f.write(flo)
    housing.ClearRegistries()
    sk = skedding.Skedder(name="k", period=tick, real=False, filepath=path)
    if not sk.build():
        return flo, None, "build failed"
    house = sk.houses[0]
    store = house.store
    watched = [f for f in house.framers if f.name == "plain" or not f.original]
    traces = {}
    for fm in watched:
        tr = traces[fm.name] = []
        seen = {}

        def mk(fm, tr, seen):
            oc, osg = fm.updateCounter, fm.segue

            def updateCounter():
                oc()
                seen["e"], seen["r"] = fm.elapsed, fm.recurred

            def segue():
                before = fm.active.name if fm.active else None
                r = osg()
                tr.append((store.stamp, before, seen.get("e"), seen.get("r"), fm.active.name if fm.active else None))
                return r
            fm.updateCounter, fm.segue = updateCounter, segue
        mk(fm, tr, seen)
    calls = [0]
    och = store.changeStamp

    def changeStamp(stamp):
        calls[0] += 1
        if calls[0] > 400:
            raise KeyboardInterrupt()
        return och(stamp)
    store.changeStamp = changeStamp
    try:
        sk.run()
    except KeyboardInterrupt:
        pass
    return flo, traces, None


def statement(traces, T, N, nested):
    """None or why"""
    for name, tr in traces.items():
        # frame order: worker/plain A(timeout T) B(repeat N); inner A(repeat N+1) B(timeout T)
        for frame in ("A", "B"):
            rows = [t for t in tr if t[1] == frame]
            if not rows:
                continue
            left = [t for t in rows if t[4] != frame]
            # which clock governs this frame of this framer?
            is_inner = "inner" in name
            if is_inner:
                kind, goal = ("r", N + 1) if frame == "A" else ("e", T)
            else:
                kind, goal = ("e", T) if frame == "A" else ("r", N)
            idx = 2 if kind == "e" else 3
            due = [t for t in rows if t[idx] is not None and t[idx] >= goal]
            verb = "timeout %r" % goal if kind == "e" else "repeat %d" % goal
            if due and (not left or left[0] is not due[0]):
                return "framer %s: `%s` in frame %s did not leave at the first evaluation with its own %s >= goal " \
                       "(first due at stamp %r with %s=%r; left at %s)" % (
                           name, verb, frame, "elapsed" if kind == "e" else "recurred", due[0][0],
                           "elapsed" if kind == "e" else "recurred", due[0][idx],
                           ("stamp %r" % left[0][0]) if left else "never")
            if left and not due:
                return "framer %s: `%s` in frame %s left at stamp %r before its own clock reached the goal" % (
                    name, verb, frame, left[0][0])
    # a clone of worker runs like the un-cloned framer with the same frames
    pl = [(t[0], t[1], t[4]) for t in traces.get("plain", []) if t[1] in ("A", "B")]
    for name, tr in traces.items():
        if name != "plain" and "inner" not in name and not nested:
            cl = [(t[0], t[1], t[4]) for t in tr if t[1] in ("A", "B")]
            m = min(len(cl), len(pl))       # the run ends when the clone is done: compare the common prefix
            if cl[:m] != pl[:m]:
                return "clone %s and the un-cloned framer with the same frames differ: %r vs %r" % (name, cl[:6], pl[:6])
    return None


def check_clone_clocks(ctx):
    found = None
    k = 0
    for tick in (0.125, 0.1):
        for T in (2 * tick, 1.0, 0.3):
            for N in (1, 3):
                for nclones, nested in ((1, False), (2, False), (1, True)):
                    k += 1
                    flo, traces, err = run_one(ctx, tick, T, N, nclones, nested, "clone%d" % k)
                    why = err or statement(traces, T, N, nested)
                    ctx.case({"clone_script": k, "tick": tick, "T": T, "N": N, "nclones": nclones, "nested": nested},
                             nontrivial=True, kind="clone-clocks")
                    if why and found is None:
                        found = {"key": "C11:clone-clock", "flo": flo, "why": why,
                                 "contradicts": "C11 statement (timeout / repeat in a cloned framer)"}
    if found:
        ctx.tie_broken("statement", "C11 timeout/repeat verbs in cloned framers",
                       "the implementation fails the executable statement: %s" % found["why"])
    return found
