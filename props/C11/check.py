"""C11 -- kernel property (see coq/C11/Props.v, coq/Kernel/*.v, lib/kernel.py, lib/kprops.py)."""
import os, sys
sys.path.insert(0, os.path.dirname(os.path.abspath(__file__)))
import kprops
import clones

LEVEL = "proof"
RUNS = [{'label': 'clocks', 'quick': 60, 'thorough': 600, 'features': {'aux': False, 'slave': False, 'condaux': False}, 'ticks': (0.125, 0.1, 0.05, 0.3), 'crash': 'none'}, {'label': 'auxclocks', 'quick': 20, 'thorough': 200, 'features': {'bid': False}, 'ticks': (0.125, 0.1), 'crash': 'none'}]


def run(ctx):
    corpus = []
    for r in RUNS:
        r["ticks"] = tuple(r["ticks"])
    kprops.kernel_check(ctx, "C11", runs=RUNS, preds=['C11', 'C11c', 'C11v', 'C08p', 'C05'], corpus=corpus, extra_checks=[clones.check_clone_clocks],
                        rule="random kernel programs with 'if elapsed op T' / 'if recurred op N' transitions (timeout/repeat are exactly these with op >=), T on multiples of the tick and decimal values, binary-exact and decimal tick periods; the framer's elapsed (bit exact, binary64) and recurred after EVERY send are compared with the Coq model; implementation-only statement: after every run of a scheduled framer recurred = completed iterations since the outline last changed (incl. forced re-entry) and elapsed = store stamp minus the stamp of that change. Non-trivial = outline change and > 6 events")
