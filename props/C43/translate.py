"""
translate.py -- fail-closed Python-ast -> Gallina translator for small pure helpers.

Used by C43 (navigating.wrap1/wrap2/delta over Q), C44 (vectoring polygon predicates over Z*Z)
and C46 (ControllerPid.action, blending.blend0, navigating.wrap2 over an abstract float-like
value type with the arithmetic supplied as a record).

Fail-closed: every ast node type, operator, builtin and name that is not explicitly handled
raises Untranslatable; nothing is skipped silently (docstrings and the explicitly configured
`skip` statements are recorded in the `notes` of the result and emitted as comments).

The target vocabulary is coq/Lib/C43_PyPrelude.v.

Statement translation is continuation passing:
   x = e ; rest            ->  let x := e in <rest>
   x op= e ; rest          ->  let x := x op e in <rest>
   if c: A else: B ; rest  ->  if c then <A;rest> else <B;rest>          (rest duplicated)
   return e                ->  e                       (inside a loop body:  LRet e)
   for i in range(n): B ; rest
        ->  match py_for_range n (fun i st => let '(vars) := st in <B; LCont (vars)>) (vars) with
            | LRet r => r | LCont st => let '(vars) := st in <rest> end
      where vars = the variables assigned in B that are live (defined) before the loop;
      variables first assigned inside B are iteration-local and must not be read after it.
Types: 'num' (Z / Q / V by dialect), 'bool', 'pt' (2-tuple of num), 'pts' (list of pt).
"""
import ast
from fractions import Fraction


class Untranslatable(Exception):
    pass


COQ_RESERVED = {"at", "as", "end", "fun", "if", "in", "let", "match", "return", "then", "using", "where",
                "with", "fix", "cofix", "forall", "exists", "for", "mod", "else", "Type", "Prop", "Set",
                "IF", "exists2"}


def cname(n):
    return n + "_" if n in COQ_RESERVED else n


# --------------------------------------------------------------------------------------
# dialects
# --------------------------------------------------------------------------------------

class DialectQ(object):
    name = "Q"
    num = "Q"
    scope = "Q_scope"

    def lit(self, v):
        fr = Fraction(v)            # exact value of the int / binary double literal
        return "(%d # %d)" % (fr.numerator, fr.denominator)

    binop = {ast.Add: "Qplus", ast.Sub: "Qminus", ast.Mult: "Qmult", ast.Div: "Qdiv", ast.Mod: "pymodQ"}
    cmpop = {ast.Eq: "Qeqb", ast.NotEq: "Qneb", ast.Lt: "Qltb", ast.LtE: "Qleb", ast.Gt: "Qgtb", ast.GtE: "Qgeb"}
    neg = "Qopp"
    funcs = {"abs": ("Qabs", 1)}


class DialectZ(object):
    name = "Z"
    num = "Z"
    scope = "Z_scope"

    def lit(self, v):
        if isinstance(v, float) or isinstance(v, bool):
            raise Untranslatable("non-int literal %r in Z dialect" % (v,))
        return "(%d)" % v

    # Python int %: floored, sign of divisor == Coq Z.modulo ; `/` is not an int operation
    binop = {ast.Add: "Z.add", ast.Sub: "Z.sub", ast.Mult: "Z.mul", ast.Mod: "Z.modulo"}
    cmpop = {ast.Eq: "Z.eqb", ast.NotEq: "Z_neb", ast.Lt: "Z.ltb", ast.LtE: "Z.leb", ast.Gt: "Z_gtb", ast.GtE: "Z_geb"}
    neg = "Z.opp"
    funcs = {"abs": ("Z.abs", 1)}


class DialectV(object):
    """abstract value type V with operations from a record N : Num V"""
    name = "V"
    num = "V"
    scope = None

    def lit(self, v):
        if isinstance(v, bool):
            raise Untranslatable("bool literal as number")
        fr = Fraction(v)
        return "(vlit N (%d # %d)%%Q)" % (fr.numerator, fr.denominator)

    binop = {ast.Add: "vadd N", ast.Sub: "vsub N", ast.Mult: "vmul N", ast.Div: "vdiv N", ast.Mod: "vmod N"}
    cmpop = {ast.Eq: "veq N", ast.NotEq: "vne N", ast.Lt: "vlt N", ast.LtE: "vle N", ast.Gt: "vgt N", ast.GtE: "vge N"}
    neg = "vneg N"
    funcs = {"abs": ("vabs N", 1), "float": ("vfloat N", 1), "min": ("py_min N", 2), "max": ("py_max N", 2)}


# --------------------------------------------------------------------------------------

class FuncSpec(object):
    """type table entry for one translated function.
    args: [(python_name, type)] in positional order; ret: type;
    coq: name of the generated definition (default: python name)"""
    def __init__(self, name, args, ret, coq=None):
        self.name = name
        self.args = args
        self.ret = ret
        self.coq = coq or cname(name)


class MethodSpec(object):
    """a method translated as a state transformer.
    reads : {attribute chain 'self.a.b' : (coq_name, type)}   every chain the body may read
    writes: ordered list of chains that may be assigned; the result is a record of their final values
    skip  : list of ast.dump-normalised source strings of statements that are deliberately not
            translated (recorded in notes)"""
    def __init__(self, cls, name, chains, writes, skip=(), coq=None):
        self.cls = cls
        self.name = name
        self.chains = chains
        self.writes = writes
        self.skip = list(skip)
        self.coq = coq or cname(name)


class Translator(object):
    def __init__(self, source, dialect, funcs, filename="<src>"):
        self.tree = ast.parse(source, filename)
        self.src = source
        self.d = dialect
        self.funcs = {f.name: f for f in funcs}
        self.order = [f.name for f in funcs]
        self.notes = []
        self.aliases = {}
        self.defs = {}
        for node in self.tree.body:
            if isinstance(node, ast.FunctionDef):
                self.defs[node.name] = node       # last definition wins, as in Python
            elif (isinstance(node, ast.Assign) and len(node.targets) == 1 and
                  isinstance(node.targets[0], ast.Name) and isinstance(node.value, ast.Name)):
                # module level alias  `left = ccw`
                self.aliases[node.targets[0].id] = node.value.id
        self.uid = 0
        names = [n.name for n in self.tree.body if isinstance(n, ast.FunctionDef)]
        dup = sorted(set(x for x in names if names.count(x) > 1) | (set(names) & set(self.aliases)))
        for f in funcs:
            if f.name.split(".")[-1] in dup:
                raise Untranslatable("name %s is bound more than once at module level" % f.name)
        self.dup = set(dup)

    # -- helpers ---------------------------------------------------------------------
    def fail(self, node, why):
        line = getattr(node, "lineno", "?")
        raise Untranslatable("line %s: %s: %s" % (line, why, ast.dump(node)[:200] if isinstance(node, ast.AST) else node))

    def resolve(self, name):
        if name in self.dup:
            raise Untranslatable("name %s is bound more than once at module level" % name)
        seen = set()
        while name in self.aliases and name not in self.defs and name not in seen:
            seen.add(name)
            name = self.aliases[name]
        # an alias may also shadow: `left = ccw` after def ccw; aliases to defs
        if name in self.aliases and self.aliases[name] in self.defs and name not in self.defs:
            name = self.aliases[name]
        return name

    def fresh(self, base):
        self.uid += 1
        return "%s_%d" % (base, self.uid)

    # -- static evaluation (for dead `raise` branches) ---------------------------------
    def static(self, e, env):
        """python value of e if it is determined by the declared types alone, else None"""
        if isinstance(e, ast.Constant) and isinstance(e.value, (int, bool)):
            return e.value
        if (isinstance(e, ast.Call) and isinstance(e.func, ast.Name) and e.func.id == "len" and
                len(e.args) == 1 and not e.keywords and isinstance(e.args[0], ast.Name) and
                env.get(e.args[0].id) == "pt"):
            return 2
        if isinstance(e, ast.Compare) and len(e.ops) == 1:
            a = self.static(e.left, env)
            b = self.static(e.comparators[0], env)
            if a is None or b is None:
                return None
            op = e.ops[0]
            if isinstance(op, ast.NotEq):
                return a != b
            if isinstance(op, ast.Eq):
                return a == b
        return None

    # -- expressions -----------------------------------------------------------------
    def expr(self, e, env):
        """returns (coq, type)"""
        d = self.d
        if isinstance(e, ast.Constant):
            if isinstance(e.value, bool):
                return ("true" if e.value else "false"), "bool"
            if isinstance(e.value, (int, float)):
                return d.lit(e.value), "num"
            self.fail(e, "constant")
        if isinstance(e, ast.Name):
            if e.id not in env:
                self.fail(e, "unbound name")
            if e.id in getattr(self, "unwrap", {}):
                return self.unwrap[e.id], "num"      # inside try/except TypeError: the number in Some
            return cname(e.id), env[e.id]
        if isinstance(e, ast.Attribute):
            ch = self.chain(e)
            if ch is None or ch not in env:
                self.fail(e, "attribute chain not in the type table")
            if ch in getattr(self, "unwrap", {}):
                return self.unwrap[ch], "num"
            return self.chain_name(ch), env[ch]
        if isinstance(e, ast.BinOp):
            if type(e.op) not in d.binop:
                self.fail(e, "binary operator")
            a, ta = self.expr(e.left, env)
            b, tb = self.expr(e.right, env)
            if ta != "num" or tb != "num":
                self.fail(e, "arithmetic on non-numbers")
            return "(%s %s %s)" % (d.binop[type(e.op)], a, b), "num"
        if isinstance(e, ast.UnaryOp):
            a, ta = self.expr(e.operand, env)
            if isinstance(e.op, ast.USub) and ta == "num":
                return "(%s %s)" % (d.neg, a), "num"
            if isinstance(e.op, ast.Not) and ta == "bool":
                return "(negb %s)" % a, "bool"
            self.fail(e, "unary operator")
        if isinstance(e, ast.BoolOp):
            parts = [self.expr(v, env) for v in e.values]
            if any(t != "bool" for _, t in parts):
                self.fail(e, "and/or on non-bool (value semantics not modelled)")
            op = " && " if isinstance(e.op, ast.And) else " || "
            return "(" + op.join(p for p, _ in parts) + ")", "bool"
        if isinstance(e, ast.Compare):
            if len(e.ops) != 1:
                self.fail(e, "chained comparison")
            op = e.ops[0]
            a, ta = self.expr(e.left, env)
            b, tb = self.expr(e.comparators[0], env)
            if isinstance(op, ast.In):
                if ta == "pt" and tb == "pts":
                    return "(py_in_pts %s %s)" % (a, b), "bool"
                self.fail(e, "in")
            if ta == "num" and tb == "num":
                if type(op) not in d.cmpop:
                    self.fail(e, "comparison operator")
                return "(%s %s %s)" % (d.cmpop[type(op)], a, b), "bool"
            if ta == "pt" and tb == "pt":
                if isinstance(op, ast.Eq):
                    return "(pt_eqb %s %s)" % (a, b), "bool"
                if isinstance(op, ast.NotEq):
                    return "(pt_neb %s %s)" % (a, b), "bool"
            self.fail(e, "comparison of these types")
        if isinstance(e, ast.IfExp):
            c, tc = self.expr(e.test, env)
            a, ta = self.expr(e.body, env)
            b, tb = self.expr(e.orelse, env)
            if tc != "bool" or ta != tb:
                self.fail(e, "conditional expression types")
            return "(if %s then %s else %s)" % (c, a, b), ta
        if isinstance(e, ast.Subscript):
            a, ta = self.expr(e.value, env)
            sl = e.slice
            if ta == "pt":
                if isinstance(sl, ast.Constant) and sl.value == 0:
                    return "(fst %s)" % a, "num"
                if isinstance(sl, ast.Constant) and sl.value == 1:
                    return "(snd %s)" % a, "num"
                if (isinstance(sl, ast.Slice) and sl.lower is None and sl.step is None and
                        isinstance(sl.upper, ast.Constant) and sl.upper.value == 2):
                    return a, "pt"          # p[:2] of a 2-tuple is the 2-tuple
                self.fail(e, "subscript of a point")
            if ta == "pts" and not isinstance(sl, ast.Slice):
                i, ti = self.expr(sl, env)
                if ti != "num":
                    self.fail(e, "index type")
                return "(py_index_pts %s %s)" % (a, i), "pt"
            self.fail(e, "subscript")
        if isinstance(e, ast.Call):
            return self.call(e, env)
        self.fail(e, "expression")

    def genexp(self, g, env):
        """generator expression over the components of points:
             (<elt> for e in v)   /   (<elt> for e, g in zip(u, v))
           returns the list of the two component expressions [(coq, type)]"""
        if not isinstance(g, ast.GeneratorExp) or len(g.generators) != 1:
            self.fail(g, "generator expression")
        c = g.generators[0]
        if c.ifs or c.is_async:
            self.fail(g, "generator filter")
        srcs = []
        if isinstance(c.target, ast.Name):
            names = [c.target.id]
            srcs = [c.iter]
        elif isinstance(c.target, ast.Tuple) and all(isinstance(t, ast.Name) for t in c.target.elts):
            names = [t.id for t in c.target.elts]
            it = c.iter
            if not (isinstance(it, ast.Call) and isinstance(it.func, ast.Name) and it.func.id == "zip" and
                    not it.keywords and len(it.args) == len(names)):
                self.fail(g, "tuple target needs zip of as many sequences")
            srcs = it.args
        else:
            self.fail(g, "generator target")
        seqs = []
        for s in srcs:
            a, ta = self.expr(s, env)
            if ta != "pt":
                self.fail(g, "generator over a non-point")
            seqs.append(a)
        out = []
        for proj in ("fst", "snd"):           # a 2-tuple has exactly these two elements, in order
            env2 = dict(env)
            binds = []
            for n, a in zip(names, seqs):
                env2[n] = "num"
                binds.append("let %s := %s %s in " % (cname(n), proj, a))
            body, tb = self.expr(g.elt, env2)
            out.append(("(" + "".join(binds) + body + ")", tb))
        return out

    def call(self, e, env):
        d = self.d
        if not isinstance(e.func, ast.Name):
            # module.function(...)  e.g. navigating.wrap2, blending.blend0
            if isinstance(e.func, ast.Attribute) and isinstance(e.func.value, ast.Name):
                key = e.func.value.id + "." + e.func.attr
                if key in self.funcs:
                    return self.user_call(self.funcs[key], e, env)
            self.fail(e, "call target")
        fn = e.func.id
        if fn in env:
            self.fail(e, "call of a local variable")
        rfn = self.resolve(fn)
        if rfn in self.funcs:
            return self.user_call(self.funcs[rfn], e, env)
        if e.keywords:
            self.fail(e, "keyword arguments to builtin")
        if fn == "len" and len(e.args) == 1:
            a, ta = self.expr(e.args[0], env)
            if ta == "pts":
                return "(py_len_pts %s)" % a, "num"
            if ta == "pt":
                return d.lit(2), "num"
            self.fail(e, "len")
        if fn == "sum" and len(e.args) == 1:
            parts = self.genexp(e.args[0], env)
            if any(t != "num" for _, t in parts):
                self.fail(e, "sum of non-numbers")
            # sum() starts from int 0 and adds left to right
            acc = d.lit(0)
            for p, _ in parts:
                acc = "(%s %s %s)" % (d.binop[ast.Add], acc, p)
            return acc, "num"
        if fn == "tuple" and len(e.args) == 1:
            parts = self.genexp(e.args[0], env)
            if any(t != "num" for _, t in parts):
                self.fail(e, "tuple of non-numbers")
            return "(%s, %s)" % (parts[0][0], parts[1][0]), "pt"
        if fn in d.funcs:
            cfn, ar = d.funcs[fn]
            if len(e.args) != ar:
                self.fail(e, "arity of builtin")
            args = []
            for a in e.args:
                s, t = self.expr(a, env)
                if t != "num":
                    self.fail(e, "builtin on non-number")
                args.append(s)
            return "(%s %s)" % (cfn, " ".join(args)), "num"
        self.fail(e, "unknown function")

    def user_call(self, spec, e, env):
        slots = [None] * len(spec.args)
        if len(e.args) > len(slots):
            self.fail(e, "too many arguments")
        for i, a in enumerate(e.args):
            if isinstance(a, ast.Starred):
                self.fail(e, "star args")
            slots[i] = a
        names = [n for n, _ in spec.args]
        for kw in e.keywords:
            if kw.arg is None or kw.arg not in names:
                self.fail(e, "keyword argument")
            i = names.index(kw.arg)
            if slots[i] is not None:
                self.fail(e, "duplicate argument")
            slots[i] = kw.value
        out = []
        for (n, t), a in zip(spec.args, slots):
            if a is None:
                # default value: rendered by the generated constant  <f>_default_<arg>
                dv = self.default_of(spec, n)
                if dv is None:
                    self.fail(e, "missing argument %s" % n)
                out.append(dv)
                continue
            s, ta = self.expr(a, env)
            if ta != t:
                self.fail(e, "argument %s has type %s, expected %s" % (n, ta, t))
            out.append(s)
        pre = "%s N " % spec.coq if self.d.name == "V" else "%s " % spec.coq
        return "(%s%s)" % (pre, " ".join(out)), spec.ret

    def pydef(self, spec):
        node = self.defs.get(spec.name.split(".")[-1])
        if node is None:
            raise Untranslatable("function %s not found in source" % spec.name)
        return node

    def default_of(self, spec, argname):
        node = self.pydef(spec)
        a = node.args
        pos = [x.arg for x in a.args]
        if argname not in pos:
            return None
        k = pos.index(argname) - (len(pos) - len(a.defaults))
        if k < 0:
            return None
        dv = a.defaults[k]
        s, t = self.expr(dv, {})
        want = dict(spec.args)[argname]
        if t != want:
            self.fail(dv, "default of %s has type %s, expected %s" % (argname, t, want))
        return s

    # -- attribute chains (method mode) --------------------------------------------------
    def chain(self, e):
        parts = []
        while isinstance(e, ast.Attribute):
            parts.append(e.attr)
            e = e.value
        if isinstance(e, ast.Name):
            parts.append(e.id)
            return ".".join(reversed(parts))
        return None

    def chain_name(self, ch):
        return self.chainmap[ch]

    # -- statements --------------------------------------------------------------------
    def assigned(self, stmts):
        """names / chains assigned anywhere in stmts (incl. nested)"""
        out = []

        def tgt(t):
            if isinstance(t, ast.Name):
                out.append(t.id)
            elif isinstance(t, ast.Tuple):
                for x in t.elts:
                    tgt(x)
            elif isinstance(t, ast.Attribute):
                ch = self.chain(t)
                if ch is None:
                    self.fail(t, "assignment target")
                out.append(ch)
            else:
                self.fail(t, "assignment target")

        def walk(ss):
            for s in ss:
                if isinstance(s, ast.Assign):
                    for t in s.targets:
                        tgt(t)
                elif isinstance(s, ast.AugAssign):
                    tgt(s.target)
                elif isinstance(s, ast.If):
                    walk(s.body)
                    walk(s.orelse)
                elif isinstance(s, ast.For):
                    tgt(s.target)
                    walk(s.body)
                    walk(s.orelse)
        walk(stmts)
        return list(dict.fromkeys(out))

    def names_read(self, stmts):
        out = set()
        for s in stmts:
            for n in ast.walk(s):
                if isinstance(n, ast.Name) and isinstance(n.ctx, ast.Load):
                    out.add(n.id)
        return out

    def block(self, stmts, env, k, ret, ind):
        """translate stmts; k(env) gives the fall-through continuation text; ret(coq, type) the
        text for `return`.  returns coq text"""
        if not stmts:
            return k(env)
        s, rest = stmts[0], stmts[1:]
        pad = "  " * ind

        def cont(env2):
            return self.block(rest, env2, k, ret, ind)

        if isinstance(s, ast.Expr):
            if isinstance(s.value, ast.Constant) and isinstance(s.value.value, str):
                return cont(env)                         # docstring / string statement: no effect
            key = ast.unparse(s)
            if key in self.skip:
                self.notes.append("NOT TRANSLATED (configured skip, modelled by hand): %s" % key)
                self.skipped.add(key)
                return cont(env)
            self.fail(s, "expression statement")
        if isinstance(s, ast.Pass):
            return cont(env)
        if isinstance(s, ast.Return):
            # statements after a return on this path are unreachable on this path only
            if s.value is None or (isinstance(s.value, ast.Constant) and s.value.value is None):
                return ret(None, None, env)
            c, t = self.expr(s.value, env)
            return ret(c, t, env)
        if isinstance(s, ast.Assign):
            if len(s.targets) != 1:
                self.fail(s, "multiple assignment targets")
            t = s.targets[0]
            if (isinstance(t, ast.Tuple) and isinstance(s.value, ast.Tuple) and
                    len(t.elts) == len(s.value.elts) and len(t.elts) >= 2):
                # parallel assignment  a, b = x, y : all right hand sides are evaluated first
                vals = [self.expr(v, env) for v in s.value.elts]
                tmps = [self.fresh("rhs") for _ in vals]
                pre = "".join("let %s := %s in\n%s" % (tm, c, pad) for tm, (c, _) in zip(tmps, vals))

                def chain_bind(k, env_k):
                    if k == len(tmps):
                        return cont(env_k)
                    return self.bind(t.elts[k], tmps[k], vals[k][1], env_k,
                                     lambda e2: chain_bind(k + 1, e2), pad, s)
                return pre + chain_bind(0, env)
            c, ty = self.expr(s.value, env)
            return self.bind(t, c, ty, env, cont, pad, s)
        if isinstance(s, ast.Try):
            return self.trystmt(s, rest, env, k, ret, ind)
        if isinstance(s, ast.AugAssign):
            load = ast.copy_location(ast.BinOp(left=self.as_load(s.target), op=s.op, right=s.value), s)
            c, ty = self.expr(load, env)
            return self.bind(s.target, c, ty, env, cont, pad, s)
        if isinstance(s, ast.If):
            st = self.static(s.test, env)
            if st is False and not s.orelse:
                self.notes.append("statically dead branch dropped (2-tuple arguments): line %d: if %s"
                                  % (s.lineno, ast.unparse(s.test)))
                return cont(env)
            c, tc = self.expr(s.test, env)
            if tc != "bool":
                self.fail(s.test, "if test is not a bool (truthiness of numbers not modelled)")
            a = self.block(list(s.body) + rest, dict(env), k, ret, ind + 1)
            b = self.block(list(s.orelse) + rest, dict(env), k, ret, ind + 1)
            return "if %s\n%sthen %s\n%selse %s" % (c, pad, a, pad, b)
        if isinstance(s, ast.For):
            return self.forloop(s, rest, env, k, ret, ind)
        if isinstance(s, ast.Raise):
            self.fail(s, "raise in a branch that is not statically dead")
        self.fail(s, "statement")

    def as_load(self, t):
        if isinstance(t, ast.Name):
            return ast.copy_location(ast.Name(id=t.id, ctx=ast.Load()), t)
        if isinstance(t, ast.Attribute):
            return ast.copy_location(ast.Attribute(value=t.value, attr=t.attr, ctx=ast.Load()), t)
        self.fail(t, "augmented assignment target")

    def bind(self, t, c, ty, env, cont, pad, s):
        env2 = dict(env)
        if isinstance(t, ast.Name):
            if t.id in env and env[t.id] != ty:
                self.fail(s, "variable %s changes type %s -> %s" % (t.id, env[t.id], ty))
            if self.resolve(t.id) in self.funcs or t.id in self.funcs:
                self.fail(s, "assignment shadows a translated function")
            env2[t.id] = ty
            return "let %s := %s in\n%s%s" % (cname(t.id), c, pad, cont(env2))
        if isinstance(t, ast.Attribute):
            ch = self.chain(t)
            if ch is None or ch not in self.writes:
                self.fail(s, "assignment to an attribute that is not a declared write")
            if env.get(ch) != ty:
                self.fail(s, "attribute %s assigned type %s, declared %s" % (ch, ty, env.get(ch)))
            return "let %s := %s in\n%s%s" % (self.chain_name(ch), c, pad, cont(env2))
        if isinstance(t, ast.Tuple) and len(t.elts) == 2 and all(isinstance(x, ast.Name) for x in t.elts):
            if ty != "pt":
                self.fail(s, "tuple unpacking of a non-point")
            for x in t.elts:
                if x.id in env and env[x.id] != "num":
                    self.fail(s, "variable changes type")
                env2[x.id] = "num"
            return "let '(%s, %s) := %s in\n%s%s" % (cname(t.elts[0].id), cname(t.elts[1].id), c, pad, cont(env2))
        self.fail(s, "assignment target")

    def trystmt(self, s, rest, env, k, ret, ind):
        """try: <one assignment whose right hand side does arithmetic on values that are None or a number>
           except TypeError: <assignments>
        CPython raises TypeError for `number - None` / `None - number` / `None - None` before anything is
        assigned, so:   match the None-able operands with | Some .. => body;rest | _ => handler;rest"""
        pad = "  " * ind
        if s.orelse or s.finalbody or len(s.handlers) != 1:
            self.fail(s, "try shape")
        h = s.handlers[0]
        if not (isinstance(h.type, ast.Name) and h.type.id == "TypeError" and h.name is None):
            self.fail(s, "only `except TypeError:` is supported")
        if len(s.body) != 1 or not isinstance(s.body[0], ast.Assign) or len(s.body[0].targets) != 1:
            self.fail(s, "try body must be a single assignment")
        for hs in h.body:
            if not isinstance(hs, ast.Assign):
                self.fail(hs, "handler statement")
        asg = s.body[0]
        ops = []                      # None-able operands, in evaluation order
        for node in ast.walk(asg.value):
            key = None
            if isinstance(node, ast.Name) and isinstance(node.ctx, ast.Load):
                key = node.id
            elif isinstance(node, ast.Attribute):
                key = self.chain(node)
            if key is not None and env.get(key) == "onum" and key not in ops:
                ops.append(key)
        if not ops:
            self.fail(s, "no None-able operand: TypeError cannot be the modelled failure")
        # every None-able operand must be a direct operand of arithmetic (not passed around)
        for node in ast.walk(asg.value):
            if isinstance(node, ast.Call):
                for a in node.args:
                    kk = a.id if isinstance(a, ast.Name) else self.chain(a) if isinstance(a, ast.Attribute) else None
                    if kk in ops:
                        self.fail(s, "None-able value passed to a call")
        names = {o: self.fresh("some") for o in ops}
        self.unwrap = names
        try:
            c, ty = self.expr(asg.value, env)
        finally:
            self.unwrap = {}

        def cont(env2):
            return self.block(rest, env2, k, ret, ind + 1)

        okb = self.bind(asg.targets[0], c, ty, dict(env), cont, pad + "  ", asg)
        errb = self.block(list(h.body) + rest, dict(env), k, ret, ind + 1)

        def opname(o):
            return self.chain_name(o) if o in self.chainmap else cname(o)
        scrut = ", ".join(opname(o) for o in ops)
        pat = ", ".join("Some %s" % names[o] for o in ops)
        wild = ", ".join("_" for _ in ops)
        return "match %s with\n%s| %s =>\n%s  %s\n%s| %s =>\n%s  %s\n%send" % (
            scrut, pad, pat, pad, okb, pad, wild, pad, errb, pad)

    def forloop(self, s, rest, env, k, ret, ind):
        pad = "  " * ind
        if s.orelse:
            self.fail(s, "for-else")
        if not isinstance(s.target, ast.Name):
            self.fail(s, "loop target")
        it = s.iter
        if not (isinstance(it, ast.Call) and isinstance(it.func, ast.Name) and it.func.id == "range" and
                len(it.args) == 1 and not it.keywords):
            self.fail(s, "only `for i in range(n)` is supported")
        n, tn = self.expr(it.args[0], env)
        if tn != "num" or self.d.name != "Z":
            self.fail(s, "range bound must be an int")
        ivar = s.target.id
        if ivar in env:
            self.fail(s, "loop variable shadows a live variable")
        asg = [a for a in self.assigned(s.body) if a != ivar]
        if ivar in self.assigned(s.body):
            self.fail(s, "loop variable assigned in body")
        carried = [a for a in asg if a in env]
        local = [a for a in asg if a not in env] + [ivar]
        used_after = self.names_read(rest)
        for a in local:
            if a in used_after:
                self.fail(s, "iteration-local variable %s read after the loop" % a)
        for node in ast.walk(s):
            if isinstance(node, (ast.Break, ast.Continue, ast.While)):
                self.fail(node, "break/continue/while")

        def tup(names):
            if not names:
                return "tt"
            if len(names) == 1:
                return cname(names[0])
            return "(" + ", ".join(cname(x) for x in names) + ")"

        def untup(names, st):
            if not names:
                return ""
            if len(names) == 1:
                return "let %s := %s in " % (cname(names[0]), st)
            return "let '%s := %s in " % (tup(names), st)

        st = self.fresh("st")
        benv = dict(env)
        benv[ivar] = "num"

        def bk(env2):
            return "LCont %s" % tup(carried)

        def bret(c, t, env2):
            return ret_wrap(c, t, env2)

        # a `return` inside the loop leaves the function: its value is what the enclosing `ret`
        # produces, wrapped in LRet
        def ret_wrap(c, t, env2):
            return "LRet (%s)" % ret(c, t, env2)

        body = self.block(list(s.body), benv, bk, bret, ind + 2)
        r = self.fresh("r")
        st2 = self.fresh("st")
        after = self.block(rest, dict(env), k, ret, ind + 1)
        return ("match py_for_range %s (fun %s %s =>\n%s    %s%s) %s with\n%s| LRet %s => %s\n%s| LCont %s =>\n%s  %s%s\n%send"
                % (n, cname(ivar), st, pad, untup(carried, st), body, tup(carried), pad, r, r, pad, st2,
                   pad, untup(carried, st2), after, pad))

    # -- top level ---------------------------------------------------------------------
    def function(self, spec):
        node = self.pydef(spec)
        a = node.args
        if a.vararg or a.kwarg or a.kwonlyargs or a.posonlyargs:
            self.fail(node, "signature")
        if [x.arg for x in a.args] != [n for n, _ in spec.args]:
            self.fail(node, "signature differs from the type table: %s" % [x.arg for x in a.args])
        if node.decorator_list:
            self.fail(node, "decorators")
        env = dict(spec.args)
        self.skip, self.skipped, self.writes, self.chainmap = [], set(), [], {}

        def k(env2):
            raise Untranslatable("function %s can fall off its end (returns None)" % spec.name)

        def ret(c, t, env2):
            if c is None:
                raise Untranslatable("function %s returns None" % spec.name)
            if t != spec.ret:
                raise Untranslatable("function %s returns %s, type table says %s" % (spec.name, t, spec.ret))
            return c

        body = self.block(list(node.body), env, k, ret, 1)
        tmap = {"num": self.d.num, "bool": "bool", "pt": "pt", "pts": "list pt"}
        params = " ".join("(%s : %s)" % (cname(n), tmap[t]) for n, t in spec.args)
        pre = "{V : Type} (N : Num V) " if self.d.name == "V" else ""
        out = []
        # defaults as named constants
        pos = [x.arg for x in a.args]
        for i, dv in enumerate(a.defaults):
            an = pos[len(pos) - len(a.defaults) + i]
            s, t = self.expr(dv, {})
            if t != dict(spec.args)[an]:
                self.fail(dv, "default value type")
            out.append("Definition %s_default_%s %s: %s := %s." % (spec.coq, an, pre, tmap[t], s))
        out.append("(* %s : python line %d *)" % (spec.name, node.lineno))
        out.append("Definition %s %s%s : %s :=\n  %s." % (spec.coq, pre, params, tmap[spec.ret], body))
        return "\n".join(out)

    def method(self, mspec):
        cls = None
        for node in self.tree.body:
            if isinstance(node, ast.ClassDef) and node.name == mspec.cls:
                cls = node
        if cls is None:
            raise Untranslatable("class %s not found" % mspec.cls)
        node = None
        for n in cls.body:
            if isinstance(n, ast.FunctionDef) and n.name == mspec.name:
                node = n
        if node is None:
            raise Untranslatable("method %s.%s not found" % (mspec.cls, mspec.name))
        if node.decorator_list:
            self.fail(node, "decorators")
        self.skip = list(mspec.skip)
        self.skipped = set()
        self.writes = list(mspec.writes)
        self.chainmap = {ch: nm for ch, (nm, _) in mspec.chains.items()}
        env = {ch: t for ch, (_, t) in mspec.chains.items()}
        tmap = {"num": self.d.num, "bool": "bool", "onum": "(option %s)" % self.d.num}
        rec = mspec.coq + "_out"
        fields = [(self.chainmap[w], env[w]) for w in mspec.writes]

        def final(env2):
            return "mk_%s %s" % (rec, " ".join(nm for nm, _ in fields))

        def k(env2):
            return final(env2)

        def ret(c, t, env2):
            if c is not None:
                raise Untranslatable("method returns a value")
            return final(env2)

        body = self.block(list(node.body), env, k, ret, 1)
        missing = [s for s in self.skip if s not in self.skipped]
        if missing:
            raise Untranslatable("configured skip statements not found in the source: %r" % missing)
        out = []
        vpre = "{V : Type} (N : Num V) " if self.d.name == "V" else ""
        vty = "(V : Type) " if self.d.name == "V" else ""
        out.append("Record %s %s: Type := mk_%s {\n%s\n}." % (
            rec, vty, rec, ";\n".join("  o_%s : %s" % (nm, tmap[t]) for nm, t in fields)))
        if self.d.name == "V":
            out.append("Arguments mk_%s {V}.\n" % rec + "\n".join("Arguments o_%s {V}." % nm for nm, _ in fields))
        params = " ".join("(%s : %s)" % (nm, tmap[t]) for ch, (nm, t) in mspec.chains.items())
        rty = "%s V" % rec if self.d.name == "V" else rec
        out.append("(* %s.%s : python line %d *)" % (mspec.cls, mspec.name, node.lineno))
        out.append("Definition %s %s%s : %s :=\n  %s." % (mspec.coq, vpre, params, rty, body))
        return "\n".join(out)


HEADER = """(* GENERATED by props/C43/translate.py from %(src)s -- do not edit.
   Regenerated from the current source on every run of the check. *)
From Coq Require Import ZArith QArith Qround Qabs List Bool.
Import ListNotations.
Require Import V.Lib.C43_PyPrelude.
%(extra)s
"""

ZHELP = """Definition Z_neb (a b : Z) : bool := negb (Z.eqb a b).
Definition Z_gtb (a b : Z) : bool := Z.ltb b a.
Definition Z_geb (a b : Z) : bool := Z.leb b a.
"""


def translate_module(source, dialect, funcs, srcname, methods=(), extra_imports=""):
    """returns (coq_text, notes).  raises Untranslatable."""
    tr = Translator(source, dialect, funcs, srcname)
    extra = extra_imports
    if dialect.scope:
        extra += "Open Scope %s.\n" % dialect.scope
    parts = [HEADER % {"src": srcname, "extra": extra}]
    if dialect.name == "Z":
        parts.append(ZHELP)
    for name in tr.order:
        parts.append(tr.function(tr.funcs[name]))
        parts.append("")
    for m in methods:
        parts.append(tr.method(m))
        parts.append("")
    if tr.notes:
        parts.append("(* translator notes:\n" + "\n".join("   " + n.replace("(*", "( *").replace("*)", "* )") for n in dict.fromkeys(tr.notes)) + "\n*)")
    return "\n".join(parts) + "\n", list(dict.fromkeys(tr.notes))


# --------------------------------------------------------------------------------------
# the three modules
# --------------------------------------------------------------------------------------

def gen_navigating(source):
    funcs = [
        FuncSpec("wrap1", [("angle", "num"), ("wrap", "num")], "num"),
        FuncSpec("wrap2", [("angle", "num"), ("wrap", "num")], "num"),
        FuncSpec("delta", [("desired", "num"), ("actual", "num"), ("wrap", "num")], "num"),
    ]
    return translate_module(source, DialectQ(), funcs, "ioflo/aid/navigating.py")


def gen_vectoring(source):
    P, L, N, B = "pt", "pts", "num", "bool"
    funcs = [
        FuncSpec("mag2", [("v", P)], N),
        FuncSpec("sub", [("u", P), ("v", P)], P),
        FuncSpec("dot", [("u", P), ("v", P)], N),
        FuncSpec("trip", [("u", P), ("v", P)], N),
        FuncSpec("ccw", [("u", P), ("v", P)], B),
        FuncSpec("cw", [("u", P), ("v", P)], B),
        FuncSpec("tween2", [("p", P), ("u", P), ("v", P)], B),
        FuncSpec("wind", [("p", P), ("vs", L)], N),
        FuncSpec("inside", [("p", P), ("vs", L), ("side", B)], B),
        FuncSpec("insideOnly", [("p", P), ("vs", L)], B),
        FuncSpec("outside", [("p", P), ("vs", L), ("side", B)], B),
        FuncSpec("outsideOnly", [("p", P), ("vs", L)], B),
        FuncSpec("sideOnly", [("p", P), ("vs", L)], B),
    ]
    return translate_module(source, DialectZ(), funcs, "ioflo/aid/vectoring.py")


def _class(tree, name):
    for node in tree.body:
        if isinstance(node, ast.ClassDef) and node.name == name:
            return node
    raise Untranslatable("class %s not found" % name)


def _defs(cls):
    return [n.name for n in cls.body if isinstance(n, ast.FunctionDef)]


def check_lapse_call_chain(src_controlling, src_doing):
    """ControllerPid.action starts with super().action(), which must be DoerLapse.action, whose body
    must be exactly `self.updateLapse()` (besides the docstring and a console.profuse call); nothing in
    between may override action/updateLapse.  Fail-closed structural check on the current source."""
    tc, td = ast.parse(src_controlling), ast.parse(src_doing)
    pid, base = _class(tc, "ControllerPid"), _class(tc, "ControllerBase")
    if [ast.unparse(b) for b in pid.bases] != ["ControllerBase"]:
        raise Untranslatable("ControllerPid bases changed: %r" % [ast.unparse(b) for b in pid.bases])
    if [ast.unparse(b) for b in base.bases] != ["doing.DoerLapse"]:
        raise Untranslatable("ControllerBase bases changed: %r" % [ast.unparse(b) for b in base.bases])
    if "updateLapse" in _defs(pid) or {"updateLapse", "action"} & set(_defs(base)):
        raise Untranslatable("action/updateLapse overridden between ControllerPid and DoerLapse")
    imp = [n for n in tc.body if isinstance(n, ast.ImportFrom) and any(a.name == "doing" for a in n.names)]
    if not imp or (imp[0].level, imp[0].module) != (4, "base"):
        raise Untranslatable("controlling.py does not import doing from ....base")
    dl = _class(td, "DoerLapse")
    act = [n for n in dl.body if isinstance(n, ast.FunctionDef) and n.name == "action"]
    if len(act) != 1:
        raise Untranslatable("DoerLapse.action not found")
    body = [st for st in act[0].body
            if not (isinstance(st, ast.Expr) and isinstance(st.value, ast.Constant) and isinstance(st.value.value, str))]
    body = [st for st in body if not (isinstance(st, ast.Expr) and isinstance(st.value, ast.Call) and
                                      ast.unparse(st.value.func) == "console.profuse")]
    if [ast.unparse(st) for st in body] != ["self.updateLapse()"]:
        raise Untranslatable("DoerLapse.action is no longer just self.updateLapse(): %r" % [ast.unparse(st) for st in body])
    return ["call chain checked on the source: ControllerPid.action -> super().action = DoerLapse.action = self.updateLapse() "
            "(console.profuse ignored)"]


def gen_controlling(src_controlling, src_blending, src_navigating, src_doing=None):
    """C46: ControllerPid.action (+ blending.blend0, navigating.wrap2) over an abstract value type V
    with the arithmetic and comparisons supplied by a record N : Num V."""
    N = "num"
    d = DialectV()
    f_wrap2 = FuncSpec("navigating.wrap2", [("angle", N), ("wrap", N)], N, coq="wrap2_v")
    f_blend0 = FuncSpec("blending.blend0", [("d", N), ("u", N), ("s", N)], N, coq="blend0")
    parts = [HEADER % {"src": "ioflo/trim/interior/plain/controlling.py (ControllerPid.action), "
                              "ioflo/aid/blending.py (blend0), ioflo/aid/navigating.py (wrap2)", "extra": ""}]
    notes = []
    # navigating.wrap2 and blending.blend0, each from its own module
    for src, spec, plain in ((src_navigating, f_wrap2, "wrap2"), (src_blending, f_blend0, "blend0")):
        tr = Translator(src, d, [FuncSpec(plain, spec.args, spec.ret, coq=spec.coq)], spec.name)
        parts.append(tr.function(tr.funcs[plain]))
        parts.append("")
        notes += tr.notes
    # the names `navigating` and `blending` in controlling.py must be the ioflo.aid modules
    tree = ast.parse(src_controlling)
    imported = {}
    for node in tree.body:
        if isinstance(node, ast.ImportFrom):
            for a in node.names:
                imported[a.asname or a.name] = (node.level, node.module, a.name)
        elif isinstance(node, ast.Import):
            for a in node.names:
                imported[(a.asname or a.name).split(".")[0]] = (0, a.name, None)
        elif isinstance(node, (ast.Assign, ast.AugAssign, ast.FunctionDef, ast.ClassDef)):
            tg = []
            if isinstance(node, ast.Assign):
                tg = [t.id for t in node.targets if isinstance(t, ast.Name)]
            elif isinstance(node, (ast.FunctionDef, ast.ClassDef)):
                tg = [node.name]
            for t in tg:
                if t in ("navigating", "blending"):
                    raise Untranslatable("module name %s rebound in controlling.py" % t)
    for m in ("navigating", "blending"):
        if imported.get(m) != (4, "aid", m):
            raise Untranslatable("controlling.py does not import %s from ....aid (got %r)" % (m, imported.get(m)))
    P = "self.parm.data."
    chains = {
        "self.lapse": ("lapse", N),
        "self.elapsed.value": ("elapsed_value", N),
        "self.input.value": ("input_value", N),
        "self.rate.value": ("rate_value", N),
        "self.rsp.value": ("rsp_value", N),
        "self.prsp.value": ("prsp_value", N),
        "self.e.value": ("e_value", N),
        "self.er.value": ("er_value", N),
        "self.es.value": ("es_value", N),
        "self.output.value": ("output_value", N),
        P + "drsp": ("p_drsp", N), P + "wrap": ("p_wrap", N), P + "calcRate": ("p_calcRate", "bool"),
        P + "ger": ("p_ger", N), P + "gff": ("p_gff", N), P + "gpe": ("p_gpe", N), P + "gde": ("p_gde", N),
        P + "gie": ("p_gie", N), P + "esmax": ("p_esmax", N), P + "esmin": ("p_esmin", N),
        P + "ovmax": ("p_ovmax", N), P + "ovmin": ("p_ovmin", N),
    }
    writes = ["self.elapsed.value", "self.prsp.value", "self.e.value", "self.er.value", "self.es.value",
              "self.output.value"]
    ms = MethodSpec("ControllerPid", "action", chains, writes,
                    skip=["super(ControllerPid, self).action(**kw)"], coq="action")
    tr = Translator(src_controlling, d, [f_wrap2, f_blend0], "controlling.py")
    parts.append(tr.method(ms))
    notes += tr.notes
    if src_doing is not None:
        notes += check_lapse_call_chain(src_controlling, src_doing)
        ul = MethodSpec("DoerLapse", "updateLapse",
                        {"self.stamp": ("stamp", "onum"), "self.store.stamp": ("store_stamp", "onum"),
                         "self.lapse": ("lapse", N)},
                        ["self.stamp", "self.lapse"], coq="updateLapse")
        tr2 = Translator(src_doing, d, [], "doing.py")
        parts.append("")
        parts.append(tr2.method(ul))
        notes += tr2.notes
        notes.append("updateLapse: .stamp values are None or a number (option); `number - None` raises TypeError")
    notes.append("shares (self.<x>.value) and parameters (self.parm.data.<y>) are read as distinct variables: "
                 "aliasing between store shares is not modelled")
    parts.append("(* translator notes:\n" + "\n".join("   " + n.replace("(*", "( *").replace("*)", "* )") for n in dict.fromkeys(notes)) + "\n*)")
    return "\n".join(parts) + "\n", list(dict.fromkeys(notes))
