"""
C43 -- angle wrapping stays in range and preserves the angle.

Tie T: coq/gen/Navigating.v is regenerated on every run from ioflo/aid/navigating.py by the
fail-closed translator props/C43/translate.py (wrap1, wrap2, delta over Q, Python floored %).
  theorems      : coq/C43/Props.v, about the generated definitions, for all rationals
  correspondence: translator validation -- the real wrap1/wrap2/delta on exactly representable
                  inputs (ints, dyadic floats, Fractions for wrap1), results converted with
                  fractions.Fraction and compared EXACTLY with the generated functions by vm_compute
  supporting    : random floats checked against the (closed-range / whole-turn) statement on the
                  implementation alone
"""
import os
import sys
from fractions import Fraction

sys.path.insert(0, os.path.dirname(os.path.abspath(__file__)))
import translate  # noqa: E402
from vlib import cq  # noqa: E402,F401
from harness import flat_cases, shadowed_builtins  # noqa: E402

LEVEL = "proof"
FCODE = {"wrap1": 1, "wrap2": 2, "delta": 3}


def gen(ctx):
    """regenerate coq/gen/Navigating.v from the CURRENT source; False if the translator refuses"""
    path = os.path.join(ctx.repo, "ioflo", "aid", "navigating.py")
    try:
        text, notes = translate.gen_navigating(open(path).read())
    except (translate.Untranslatable, SyntaxError, OSError) as ex:
        ctx.tie_broken("translator", "ioflo/aid/navigating.py", "%s: %s" % (type(ex).__name__, ex))
        return False
    ctx.write_gen("Navigating.v", text)
    ctx.trusted.append("translator props/C43/translate.py (dialect Q: numbers as exact rationals, % = floored modulo)")
    return True


# ----------------------------------------------------------------------------------------------
# the property's statement, executable, on exact values (Fractions)
# ----------------------------------------------------------------------------------------------

def F(x):
    return x if isinstance(x, Fraction) else Fraction(x)


def stmt_wrap1(a, w, r):
    a, w, r = F(a), F(w), F(r)
    if w == 0:
        return None if r == a else "wrap 0 must return the angle unchanged"
    if w > 0 and not (0 <= r < w):
        return "wrap1 result not in [0, wrap)"
    if w < 0 and not (w < r <= 0):
        return "wrap1 result not in (wrap, 0]"
    if ((a - r) / w).denominator != 1:
        return "wrap1 result differs from the angle by a non-integral number of turns"
    return None


def stmt_wrap2(a, w, r):
    a, w, r = F(a), F(w), F(r)
    if w == 0:
        return None if r == a else "wrap 0 must return the angle unchanged"
    if not (-abs(w) <= r <= abs(w)):
        return "wrap2 result not in [-|wrap|, +|wrap|]"
    if ((a - r) / (2 * w)).denominator != 1:
        return "wrap2 result differs from the angle by a non-integral number of full turns"
    return None


def call(fn, *args):
    try:
        return fn(*args), None
    except Exception as ex:  # the helpers are total on numbers; an exception is a failure
        return None, "%s: %s" % (type(ex).__name__, ex)


def exact_inputs(ctx):
    """(kind, a, w) with a, w exactly representable; python values as they are passed in"""
    out = []
    wraps_i = [0, 1, 2, 3, 7, 90, 180, 360, -1, -3, -7, -180, -360]
    for w in wraps_i:
        span = 2 * abs(w) + 3 if w else 4
        dense = range(-span - 2, span + 3) if (abs(w) < 90 or ctx.thorough) else range(-span - 2, span + 3, 7)
        for a in sorted(set(list(dense) + [k * abs(w) // 2 + d for k in range(-5, 6) for d in (-1, 0, 1)] +
                            [k * abs(w or 1) for k in range(-5, 6)] +
                            [k * abs(w or 1) + d for k in (-3, 2, 7) for d in (-1, 1)])):
            out.append(("int", a, w))
    wraps_d = [0.0, 0.5, 1.5, 2.25, 22.5, 180.0, 360.0, -0.5, -2.25, -180.0, -360.0, 45.125]
    for w in wraps_d:
        m = abs(w) or 1.0
        for k in range(-20, 21):
            out.append(("dyadic", k * m / 4.0, w))          # multiples of w/4 incl. the half turn
            out.append(("dyadic", k * m / 4.0 + 0.125, w))
            out.append(("dyadic", k * 0.375, w))
    n = ctx.n(600, 6000)
    for _ in range(n):
        den = ctx.rng.choice([1, 2, 4, 8, 64, 1024])
        a = ctx.rng.randint(-4000 * den, 4000 * den) / den
        wden = ctx.rng.choice([1, 2, 4, 8])
        w = ctx.rng.choice([-1, 1]) * ctx.rng.randint(1, 720 * wden) / wden
        if ctx.rng.random() < 0.15:      # land exactly on a multiple of w (range end points)
            a = w * ctx.rng.randint(-12, 12)
        out.append(("dyadic-rnd", float(a), float(w)))
    return out


def run(ctx):
    ctx.rule = ("exactly representable inputs (ints; dyadic floats incl. multiples of wrap/4 and the half turn; "
                "Fractions for wrap1) through the real wrap1/wrap2/delta, result converted with Fraction and "
                "compared exactly (Qeq_bool, vm_compute) with the generated Gallina functions; non-trivial = "
                "wrap != 0 and the angle is outside the target range (an actual wrap happens)")
    ctx.assumptions = [
        "theorems are about exact rational arithmetic; rounding of arbitrary doubles is outside them "
        "(a float result may land on +wrap after rounding: allowed by the closed range only)",
        "translator: Python numbers read as Q, % as floored modulo, abs as Qabs, float literals as their exact value",
    ]
    from ioflo.aid import navigating as nav

    ok = gen(ctx)
    sh = shadowed_builtins(nav)
    if sh:
        ctx.tie_broken("translator", "builtins rebound in ioflo.aid.navigating", repr(sh))
    if ok:
        ctx.coq_build("C43/Props.v")

    metas = []          # (fn, args, result or None, err)
    cases = []

    def add(fname, args, kind, nontrivial, call_args=None):
        """args: the (full) argument tuple of the contract / model; call_args: what is actually passed
        (shorter when a default is exercised)"""
        fn = getattr(nav, fname)
        r, err = call(fn, *(args if call_args is None else call_args))
        metas.append((fname, args, r, err))
        ctx.case({"f": fname, "args": [str(x) for x in args], "r": str(r) if err is None else err},
                 nontrivial=nontrivial, kind=kind + ":" + fname)
        if err is not None:
            ctx.tie_broken("correspondence", "%s%r raised" % (fname, tuple(args)), err)
            return
        try:
            fr = F(r)
        except (TypeError, ValueError, OverflowError):
            ctx.tie_broken("correspondence", "%s%r returned a non-number" % (fname, tuple(args)), repr(r))
            return
        row = [FCODE[fname]]
        for x in list(args) + [0] * (3 - len(args)):
            row += [F(x).numerator, F(x).denominator]
        row += [fr.numerator, fr.denominator]
        cases.append((row, len(metas) - 1))

    for kind, a, w in exact_inputs(ctx):
        nt = (w != 0) and not (0 <= F(a) / F(w) < 1)
        add("wrap1", (a, w), kind, nt)
        nt2 = (w != 0) and abs(F(a)) > abs(F(w))
        add("wrap2", (a, w), kind, nt2)
        if kind != "int" or (a % 3 == 0):
            b = a / 2 if kind != "int" else a // 3
            add("delta", (a, b, w), kind, (w != 0) and abs(F(a) - F(b)) > abs(F(w)))
    # delta with a zero wrap in every spelling (0, 0.0, -0.0, Fraction(0)) and heading differences beyond the
    # half and the full circle: the written contract is `wrap 0 returns the difference unchanged`; and the default
    # wrap (call with two arguments) must be 180
    for d, a in ((-800, -450), (400, 0), (0, 200), (181, 0), (0, 181), (180, 0), (-180.5, 0.25), (725.5, 0.25),
                 (1000, -1000), (359, -2), (10, 350), (Fraction(1445, 4), 0), (90, 45)):
        for w in (0, 0.0, -0.0, Fraction(0)):
            add("delta", (d, a, w), "zero-wrap", abs(F(d) - F(a)) > 180)
        if not isinstance(d, Fraction):
            add("delta", (d, a, 180.0), "default-wrap", abs(F(d) - F(a)) > 180, call_args=(d, a))
    for _ in range(ctx.n(60, 600)):
        d, a = ctx.rng.randint(-1500, 1500) / 4.0, ctx.rng.randint(-1500, 1500) / 4.0
        add("delta", (d, a, ctx.rng.choice([0, 0.0, -0.0])), "zero-wrap", abs(d - a) > 180)
    # wrap1 on genuine (non-dyadic) rationals: pure Fraction arithmetic in the implementation
    for _ in range(ctx.n(300, 3000)):
        a = Fraction(ctx.rng.randint(-5000, 5000), ctx.rng.randint(1, 97))
        w = Fraction(ctx.rng.choice([-1, 1]) * ctx.rng.randint(1, 400), ctx.rng.randint(1, 13))
        add("wrap1", (a, w), "fraction", not (0 <= a / w < 1))

    if ok and cases:
        header = ("From Coq Require Import ZArith QArith List Bool.\nImport ListNotations.\n"
                  "Require Import V.Lib.C43_PyPrelude V.gen.Navigating.\n"
                  "Definition c43_q (n d : Z) : Q := Qmake n (Z.to_pos d).\n"
                  "Definition c43_chk (r : list Z) : bool := match r with\n"
                  " | [f; n1; d1; n2; d2; n3; d3; rn; rd] =>\n"
                  "   let m := if Z.eqb f 1 then wrap1 (c43_q n1 d1) (c43_q n2 d2)\n"
                  "            else if Z.eqb f 2 then wrap2 (c43_q n1 d1) (c43_q n2 d2)\n"
                  "            else delta (c43_q n1 d1) (c43_q n2 d2) (c43_q n3 d3) in\n"
                  "   Qeq_bool m (c43_q rn rd)\n | _ => false end%Z.\n")
        try:
            bad = flat_cases(ctx, header, "c43_chk", [r for r, _ in cases], 9)
        except RuntimeError as ex:
            bad = []
            ctx.tie_broken("correspondence", "coq evaluation of generated Navigating.v failed", str(ex))
        for i in bad[:5]:
            fname, args, r, _ = metas[cases[i][1]]
            ctx.tie_broken("correspondence", "generated %s vs navigating.%s" % (fname, fname),
                           "args=%r impl=%r (exact %s)" % (args, r, F(r)))
        ctx.extra["mismatches"] = len(bad)

    # supporting: random floats, implementation alone, closed range + whole turns up to rounding
    fl_bad = []
    for _ in range(ctx.n(3000, 60000)):
        a = ctx.rng.uniform(-1e6, 1e6) if ctx.rng.random() < 0.7 else ctx.rng.uniform(-1000, 1000)
        w = ctx.rng.choice([-1, 1]) * ctx.rng.uniform(0.1, 1000.0)
        r1, e1 = call(nav.wrap1, a, w)
        r2, e2 = call(nav.wrap2, a, w)
        why = None
        if e1 or e2:
            why = e1 or e2
        else:
            tol = 1e-9 * (abs(a) + abs(w))
            k1 = (a - r1) / w
            k2 = (a - r2) / (2 * w)
            if not (min(0.0, w) <= r1 <= max(0.0, w)):
                why = "wrap1 float result outside closed [0, wrap]"
            elif not (-abs(w) <= r2 <= abs(w)):
                why = "wrap2 float result outside [-|wrap|, |wrap|]"
            elif abs(k1 - round(k1)) * abs(w) > tol or abs(k2 - round(k2)) * abs(2 * w) > tol:
                why = "float result not a whole number of turns from the angle (beyond rounding)"
        ctx.case({"a": a.hex(), "w": w.hex()}, nontrivial=False, kind="float-support")
        if why:
            fl_bad.append({"angle": a, "wrap": w, "wrap1": r1, "wrap2": r2, "why": why})
    if fl_bad:
        ctx.tie_broken("correspondence", "random-float supporting check", repr(fl_bad[0]))
    ctx.exhaustive = False

    def search():
        best = None

        def consider(cand):
            nonlocal best
            size = sum(abs(F(x)) for x in cand["args_exact"])
            if best is None or size < best[0]:
                best = (size, cand)

        for fname, args, r, err in metas:
            why = err
            if err is None:
                try:
                    if fname == "wrap1":
                        why = stmt_wrap1(args[0], args[1], r)
                    elif fname == "wrap2":
                        why = stmt_wrap2(args[0], args[1], r)
                    else:
                        r2, e2 = call(nav.wrap2, args[0] - args[1], args[2])
                        why = e2 or stmt_wrap2(F(args[0]) - F(args[1]), args[2], r)
                        if why and F(args[2]) == 0:
                            why = ("delta(desired=%r, actual=%r, wrap=%r) = %r: a wrap of zero must return the "
                                   "difference %s unchanged" % (args[0], args[1], args[2], r, F(args[0]) - F(args[1])))
                        if why is None and F(r2) != F(r):
                            why = "delta is not the two-sided wrap of the difference"
                except (TypeError, ValueError, ZeroDivisionError, OverflowError) as ex:
                    why = "non-numeric result %r (%s)" % (r, ex)
            if why:
                consider({"function": fname, "args": [repr(x) for x in args],
                          "args_exact": [str(F(x)) for x in args], "observed": repr(r), "why": why,
                          "contradicts": {"wrap1": "C43.Props.wrap1_range / wrap_whole_turns / wrap_zero_identity",
                                          "wrap2": "C43.Props.wrap2_range / wrap_whole_turns / wrap_zero_identity",
                                          "delta": "C43.Props.delta_is_wrap2"}[fname],
                          "key": "wrap-" + fname})
        if best is None and fl_bad:
            d = dict(fl_bad[0])
            d["contradicts"] = "C43 statement on floats (closed range, supporting check)"
            d["key"] = "wrap-float"
            return d
        return best[1] if best else None

    ctx.settle(search)
