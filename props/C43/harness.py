"""
flat_cases -- correspondence inside Coq with a cheap encoding.

ctx.coq_cases elaborates one Gallina term per case, which costs ~40 ms per rational-valued case.
Here every case is a fixed-width row of integers in ONE flat `list Z` literal (cheap to parse); a
Coq function `check : list Z -> bool` (given by the caller, applied to each row) decodes the row,
runs the generated function and compares.  Evaluation is vm_compute; the result is the list of
row indices on which `check` is false.
"""
import re
from concurrent.futures import ThreadPoolExecutor

RUNNER = """
Fixpoint c43_take (n : nat) (l : list Z) : list Z * list Z :=
  match n, l with
  | S n', x :: r => let (a, b) := c43_take n' r in (x :: a, b)
  | _, _ => ([], l)
  end.
Fixpoint c43_rows (fuel : nat) (i : nat) (w : nat) (chk : list Z -> bool) (l : list Z) : list nat :=
  match fuel, l with
  | S f, _ :: _ => let (row, rest) := c43_take w l in
                   if chk row then c43_rows f (S i) w chk rest else i :: c43_rows f (S i) w chk rest
  | _, _ => []
  end.
"""


def flat_cases(ctx, header, check, rows, width, shard=2500, name="flat", timeout=900):
    """rows: list of lists of `width` python ints.  check: Coq term of type list Z -> bool.
    returns sorted indices of failing rows; raises RuntimeError on a Coq error"""
    if not rows:
        return []
    for r in rows:
        if len(r) != width:
            raise ValueError("row width")
    shards = [rows[i:i + shard] for i in range(0, len(rows), shard)]
    ctx.checker_cmds.append("coqc %s_<shard>.v  (vm_compute of the generated functions on %d-wide integer rows, "
                            "%d shards)" % (name, width, len(shards)))

    def one(k):
        flat = [str(int(x)) for r in shards[k] for x in r]
        text = "\n".join([
            header, "Open Scope Z_scope.", RUNNER,
            "Definition data_%d : list Z := [%s]." % (k, ";".join(flat)),
            "Definition res_%d := Eval vm_compute in c43_rows (S (length data_%d)) 0 %d (%s) data_%d." % (
                k, k, width, check, k),
            "Print res_%d." % k])
        rc, out = ctx.coq_run(text, "%s_%d" % (name, k), timeout)
        if rc != 0:
            raise RuntimeError("coqc failed on %s_%d:\n%s" % (name, k, out[-3000:]))
        m = re.search(r"res_%d\s*=\s*(.*?)\s*:\s*list nat" % k, out, re.S)
        if not m:
            raise RuntimeError("cannot parse coq output for shard %d:\n%s" % (k, out[-2000:]))
        idx = [int(x) for x in re.findall(r"\d+", m.group(1).replace("%nat", ""))]
        return [k * shard + i for i in idx]

    with ThreadPoolExecutor(max_workers=12) as ex:
        res = list(ex.map(one, range(len(shards))))
    return sorted(i for r in res for i in r)


def shadowed_builtins(module, names=("abs", "min", "max", "float", "len", "sum", "tuple", "zip", "range")):
    """names the translator reads as Python builtins but which the module namespace rebinds
    (e.g. through `from .sixing import *`); must be empty for the translation to be meaningful"""
    import builtins
    return [n for n in names if n in vars(module) and vars(module)[n] is not getattr(builtins, n)]
