"""C08 -- kernel property (see coq/C08/Props.v, coq/Kernel/*.v, lib/kernel.py, lib/kprops.py)."""
import kprops

LEVEL = "proof"
RUNS = [{'label': 'guards', 'quick': 50, 'thorough': 500, 'features': {'slave': False}, 'ticks': (0.125, 0.1), 'crash': 'none'}, {'label': 'shared', 'quick': 20, 'thorough': 200, 'features': {'bid': False}, 'ticks': (0.125,), 'crash': 'none'}]


def run(ctx):
    corpus = []
    for r in RUNS:
        r["ticks"] = tuple(r["ticks"])
    kprops.kernel_check(ctx, "C08", runs=RUNS, preds=['C08', 'C08l', 'C08p', 'C06t', 'C04s', 'C05'], corpus=corpus,
                        rule="random kernel programs with 'let' guards on store values, clocks, statuses and done flags that flip at arbitrary ticks, auxiliaries with guarded first frames, and original auxiliaries shared between framers (ownership conflicts); traces (actions, outline, elapsed, recurred after every send) compared with the Coq model. Non-trivial = outline change and > 6 events")
